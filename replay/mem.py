"""Native bounded scenarios for the Memory properties (C02, C05, C06, C12) on the REAL code. One JSON line.
Known finding K5 is probed and reported under "known" (they do not make the run a violation)."""
import json
import os
import shutil
import sys
import tempfile
import textwrap
import types
import warnings

warnings.simplefilter("ignore")


def fresh_process_state():
    import joblib.memory as jm
    jm._FUNCTION_HASHES.clear()


def define(src, name="f", modname="usermod"):
    """Define a function from source in a synthetic module with a real file (so that inspect finds the code)."""
    d = define.dir
    path = os.path.join(d, "%s_%d.py" % (modname, define.n))
    define.n += 1
    with open(path, "w") as fh:
        fh.write(textwrap.dedent(src))
    ns = {"__name__": modname, "__file__": path}
    code = compile(open(path).read(), path, "exec")
    exec(code, ns)
    import linecache
    linecache.checkcache(path)
    return ns[name]


define.n = 0


def scenarios(which):
    from joblib import Memory, expires_after
    from joblib.memory import extract_first_line, FIRST_LINE_TEXT
    cases = 0
    known = {}
    root = tempfile.mkdtemp(prefix="pyvc_mem_")
    define.dir = os.path.join(root, "src")
    os.makedirs(define.dir)
    calls = []
    try:
        # ---------------- C02 / C06: call forms, ignore list, no sharing between different arguments
        if which in ("all", "C02", "C06"):
            mem = Memory(os.path.join(root, "c1"), verbose=0)
            src = """
            CALLS = []
            def f(a, b=2, *args, c=3, **kw):
                CALLS.append((a, b, args, c, kw))
                return ("f", a, b, args, c, sorted(kw.items()))
            """
            f = define(src)
            log = f.__globals__["CALLS"]
            cf = mem.cache(f)
            forms = [((1,), {}), ((1, 2), {}), ((1,), {"b": 2}), ((), {"a": 1}), ((), {"a": 1, "b": 2, "c": 3}), ((1,), {"c": 3})]
            for a, k in forms:
                cases += 1
                before = len(log)
                if cf(*a, **k) != f(*a, **k):
                    return dict(violation=True, cases=cases, what="cached value differs from the function's value", witness=[a, k])
                log.pop()
            if len(log) != 1:
                return dict(violation=True, cases=cases, what="equivalent call forms executed the body %d times" % len(log), witness=forms)
            for a, k in [((1, 5), {}), ((1, 2, 9), {}), ((1,), {"c": 4}), ((1,), {"z": 1}), ((2,), {})]:
                cases += 1
                n = len(log)
                if cf(*a, **k) != ("f",) + f(*a, **k)[1:]:
                    return dict(violation=True, cases=cases, what="value of other arguments returned", witness=[a, k])
                log.pop()
                if len(log) != n + 1:
                    return dict(violation=True, cases=cases, what="different arguments were served from the cache", witness=[a, k])
                if not cf.check_call_in_cache(*a, **k):
                    return dict(violation=True, cases=cases, what="check_call_in_cache False right after the call", witness=[a, k])
            # the special ignore entries: '*' (surplus positionals), '**' (surplus keywords), the instance parameter of a bound method
            # (seeded change C06-ignore-list-validated-at-decoration rejected them when the function is decorated)
            vs = define("""
            CALLS = []
            def vs(x, *args, **kw):
                CALLS.append(1)
                return x
            class K:
                def m(self, x):
                    CALLS.append(1)
                    return x
            """, "vs", "modignore")
            vlog = vs.__globals__["CALLS"]
            for ign, calls in ((["*"], [((1, 2, 3), {}), ((1, 9), {})]), (["**"], [((1,), {"a": 1}), ((1,), {"b": 2})]), (["x", "*", "**"], [((1, 2), {"a": 1}), ((5,), {})])):
                cases += 1
                del vlog[:]
                try:
                    cvs = mem.cache(vs, ignore=ign)
                    for a, k in calls:
                        cvs(*a, **k)
                except Exception as e:
                    return dict(violation=True, cases=cases, what="ignore=%r (valid for filter_args) is rejected: %r" % (ign, e), witness=dict(ignore=ign))
                if len(vlog) != 1:
                    return dict(violation=True, cases=cases, what="calls that differ only in ignored parts (ignore=%r) executed the body %d times" % (ign, len(vlog)), witness=dict(ignore=ign, calls=repr(calls)))
            cases += 1
            try:
                k1, k2 = vs.__globals__["K"](), vs.__globals__["K"]()
                del vlog[:]
                mem.cache(k1.m, ignore=["self"])(4)
                mem.cache(k2.m, ignore=["self"])(4)
            except Exception as e:
                return dict(violation=True, cases=cases, what="ignore=['self'] on a bound method is rejected: %r" % (e,), witness="bound method, ignore=['self']")
            if len(vlog) != 1:
                return dict(violation=True, cases=cases, what="bound methods of two instances with ignore=['self'] executed the body %d times" % len(vlog), witness="bound method, ignore=['self']")
            # arguments that are equal for Python (==, same hash()) but are different values: each has its own entry, in whatever order they
            # are seen by ONE wrapper (seeded change C02-args-digest-memo: digests memoised in a dict keyed by the raw arguments)
            tn = define("""
            def tn(x, y=0):
                return (type(x).__name__, repr(x), type(y).__name__)
            """, "tn", "modtn")
            import itertools as _it2
            for group in ([1, 1.0, True], [0, 0.0, False], [(1, 2), (1.0, 2)], ["a", b"a"], [frozenset([1]), frozenset([1.0])]):
                for perm in _it2.permutations(group):
                    ctn = Memory(tempfile.mkdtemp(dir=root), verbose=0).cache(tn)
                    for pos, v in enumerate(perm):
                        cases += 1
                        if ctn(v) != tn(v) or ctn(5, y=v) != tn(5, y=v):
                            return dict(violation=True, cases=cases, what="after the calls with %r the call with %r returned %r, the function computes %r" % (list(perm[:pos]), v, ctn(v), tn(v)),
                                        witness=dict(arguments_in_order=[repr(x) for x in perm]))
            # dict / set arguments built in another order, ignored parameter
            g = define("""
            CALLS = []
            def g(d, s, dbg=None):
                CALLS.append(1)
                return sorted(d.items()), sorted(s)
            """, "g")
            cg = mem.cache(g, ignore=["dbg"])
            cg({"x": 1, "y": 2}, {3, 1, 2}, dbg=1)
            cg({"y": 2, "x": 1}, {2, 3, 1}, dbg=2)
            cases += 1
            if len(g.__globals__["CALLS"]) != 1:
                return dict(violation=True, cases=cases, what="reordered dict/set or ignored parameter caused a recomputation", witness="g")
            big = [(i, str(i)) for i in range(2500)]
            n0 = len(g.__globals__["CALLS"])
            cg(dict(big), set(range(1200)))
            cg(dict(reversed(big)), set(reversed(range(1200))))
            cases += 1
            if len(g.__globals__["CALLS"]) != n0 + 1:
                return dict(violation=True, cases=cases, what="a large dict / set argument (2500 / 1200 entries) built in another order caused a recomputation", witness="g(dict(big), set(...)) then the same built in reverse order")
            # K22 (recorded finding): callables that are not functions are keyed by their raw argument lists
            import functools as _ft2
            pg = define("CALLS = []\ndef pg(a, b=0):\n    CALLS.append(1)\n    return (a, b)\n", "pg", "modpartial")
            cp = mem.cache(_ft2.partial(pg, 1))
            cp(2)
            cp(b=2)
            nk = len(pg.__globals__["CALLS"])
            if which in ("all", "C06"):
                known["K22"] = ("partial(pg, 1): p(2) then p(b=2) executed the function %d times" % nk) if nk != 1 else False
            ref = cg.call_and_shelve({"x": 1}, {1})
            cases += 1
            if ref.get() != g({"x": 1}, {1}):
                return dict(violation=True, cases=cases, what="call_and_shelve(...).get() differs", witness="g")

            # K13 (recorded finding): functions that differ only in the values captured by their closure share cached results
            kdir = define("def make(n):\n    def f(x):\n        return x + n\n    return f\n", "make", "modclosure")
            r13 = (mem.cache(kdir(1))(0), mem.cache(kdir(2))(0))
            known["K13"] = ("mem.cache(make(1))(0), mem.cache(make(2))(0) -> %r" % (r13,)) if r13 != (1, 2) else False
            # K15 (recorded finding): a functools.wraps wrapper whose own signature differs from the wrapped function's
            import functools as _ft
            inner3 = define("def f3(a, b):\n    return a * b\n", "f3", "modwraps")

            def _mk_wrapper(f3=inner3):
                @_ft.wraps(f3)
                def wrapper(scale, *args, **kw):
                    return scale * f3(*args, **kw)
                return wrapper
            w3 = _mk_wrapper()
            c3 = mem.cache(w3)
            r15 = (c3(2, 1, 1), c3(2, 1, 5))
            known["K15"] = ("cached wrapper(scale, *args) of f3(a, b): c(2, 1, 1), c(2, 1, 5) -> %r, plain gives %r" % (r15, (w3(2, 1, 1), w3(2, 1, 5)))) if r15 != (2, 10) else False
            if which not in ("all", "C02"):
                known.pop("K13", None)  # wrong values: findings of C02 only (K15 also shows in the filter_args oracle of C06 / C07)
                known.pop("K15", None)
            # attributes of the user's function named like the wrapper's own state
            cases += 1
            fa = define("def fa(x, y=0):\n    return ('fa', x, y)\n", "fa", "modattrs")
            other = define("def other(x, y=0):\n    return ('other', x, y)\n", "other", "modattrs")
            fa.func, fa.ignore, fa.mmap_mode, fa.timestamp = other, ["y"], "r", 0.0
            cfa = mem.cache(fa)
            got = [cfa(1, 2), cfa(1, 3)]
            if got != [("fa", 1, 2), ("fa", 1, 3)]:
                return dict(violation=True, cases=cases, what="attributes set on the function replaced the cached wrapper's own state: calls returned %r" % (got,),
                            witness="f.func = g; f.ignore = ['y']; mem.cache(f)(1, 2), (1, 3)")
            # every call the plain function accepts is accepted by the cached wrapper: parameters named like the wrapper's own
            if which in ("all", "C06"):
                for pname in ("self", "func", "args", "kwargs", "call_id", "shelving"):
                    m_like = define("def m(%s, x=1):\n    return ('m', %s, x)\n" % (pname, pname), "m", "modkwname_" + pname)
                    cm_ = mem.cache(m_like)
                    kw_any = define("def k(**kw):\n    return sorted(kw.items())\n", "k", "modkwany_" + pname)
                    ck_ = mem.cache(kw_any)
                    for label, fn, plain in (("__call__", cm_, m_like), ("__call__", ck_, kw_any), ("call_and_shelve", cm_, m_like), ("call", cm_, m_like),
                                             ("check_call_in_cache", cm_, m_like)):
                        cases += 1
                        want = plain(**{pname: 7})
                        try:
                            if label == "__call__":
                                got = fn(**{pname: 7})
                            elif label == "call_and_shelve":
                                got = fn.call_and_shelve(**{pname: 7}).get()
                            elif label == "call":
                                got = fn.call(**{pname: 7})[0]
                            else:
                                got = want if fn.check_call_in_cache(**{pname: 7}) in (True, False) else None
                        except TypeError as e:
                            return dict(violation=True, cases=cases, what="the cached wrapper rejects a call the plain function accepts: %s(%s=7) raised %r" % (label, pname, e),
                                        witness=dict(parameter_name=pname, entry_point=label))
                        if got != want:
                            return dict(violation=True, cases=cases, what="keyword %s=7 through %s gave %r instead of %r" % (pname, label, got, want), witness=pname)

        # ---------------- C12: changed definitions
        if which in ("all", "C12"):
            mem = Memory(os.path.join(root, "c2"), verbose=0)
            v1 = define("def h(x):\n    return ('v1', x)\n", "h", "modc12")
            c1 = mem.cache(v1)
            cases += 1
            assert c1(1) == ("v1", 1)
            fresh_process_state()  # "edited between sessions"
            v2 = define("def h(x):\n    return ('v2', x)\n", "h", "modc12")
            c2 = mem.cache(v2)
            cases += 1
            if c2(1) != ("v2", 1):
                return dict(violation=True, cases=cases, what="new definition returned a value cached by the old one: %r" % (c2(1),), witness="session edit")
            fresh_process_state()
            c2b = mem.cache(v2)
            n0 = 0
            cases += 1
            if c2b(1) != ("v2", 1) or not c2b.check_call_in_cache(1):
                return dict(violation=True, cases=cases, what="unchanged code lost its cache across sessions", witness="v2 again")
            # code object swapped
            v3 = define("def h(x):\n    return ('v3', x)\n", "h", "modc12")
            v2.__code__ = v3.__code__
            cases += 1
            r = c2b(1)
            if r != ("v3", 1):
                return dict(violation=True, cases=cases, what="swapped code object not noticed: %r" % (r,), witness="__code__ swap")
            # an edit that only changes indentation changes the meaning
            mem6 = Memory(os.path.join(root, "c6"), verbose=0)
            w1 = define("def w(n):\n    out = []\n    for i in range(n):\n        pass\n    out.append(n)\n    return out\n", "w", "modc12w")
            cases += 1
            assert mem6.cache(w1)(3) == [3]
            fresh_process_state()
            w2 = define("def w(n):\n    out = []\n    for i in range(n):\n        pass\n        out.append(n)\n    return out\n", "w", "modc12w")
            r = mem6.cache(w2)(3)
            cases += 1
            if r != [3, 3, 3]:
                return dict(violation=True, cases=cases, what="re-indented definition returned the old definition's value %r" % (r,), witness="indentation-only edit")
            # the code object swapped forth and back: A -> B -> A
            mem7 = Memory(os.path.join(root, "c7"), verbose=0)
            hs = define("def h(a, b):\n    return ('sum', a + b)\n", "h", "modswap")
            hp = define("def h(a, b):\n    return ('prod', a * b)\n", "h", "modswap")
            chs = mem7.cache(hs)
            code_a = hs.__code__
            seq = [chs(2, 5)]
            hs.__code__ = hp.__code__
            seq.append(chs(2, 5))
            hs.__code__ = code_a
            seq.append(chs(2, 5))
            cases += 3
            if seq != [("sum", 7), ("prod", 10), ("sum", 7)]:
                return dict(violation=True, cases=cases, what="code object swapped A -> B -> A: calls returned %r" % (seq,), witness="f.__code__ = B.__code__; f.__code__ = A's code again")
            # the same function cached in two locations: location 2 holds entries of the old code from an earlier session
            loc1, loc2 = os.path.join(root, "c8a"), os.path.join(root, "c8b")
            t1 = define("def t(x):\n    return ('t-old', x)\n", "t", "modtwoloc")
            Memory(loc2, verbose=0).cache(t1)(0)
            fresh_process_state()
            t2 = define("def t(x):\n    return ('t-new', x)\n", "t", "modtwoloc")
            r1 = Memory(loc1, verbose=0).cache(t2)(0)
            r2 = Memory(loc2, verbose=0).cache(t2)(0)
            cases += 2
            if (r1, r2) != (("t-new", 0), ("t-new", 0)):
                return dict(violation=True, cases=cases, what="function cached in two locations: after a call through location 1 the call through location 2 returned %r" % (r2,),
                            witness="session 1: Memory(loc2).cache(old)(0); session 2 (edited): Memory(loc1).cache(new)(0); Memory(loc2).cache(new)(0)")
            # entries written by forced calls only (MemorizedFunc.call), then the function is edited
            loc9 = os.path.join(root, "c9")
            u1 = define("def u(x):\n    return ('u-old', x)\n", "u", "modforced")
            cu = Memory(loc9, verbose=0).cache(u1)
            for i in range(3):
                cu.call(i)
            fresh_process_state()
            u2 = define("def u(x):\n    return ('u-new', x)\n", "u", "modforced")
            cu2 = Memory(loc9, verbose=0).cache(u2)
            got = [cu2(i) for i in range(3)]
            cases += 3
            if got != [("u-new", i) for i in range(3)]:
                return dict(violation=True, cases=cases, what="entries written by forced calls survive an edit of the function: %r" % (got,),
                            witness="session 1: f.call(0), f.call(1), f.call(2) only; session 2 (edited): f(0), f(1), f(2)")
            # K5: older still-referenced definition (same session)
            mem5 = Memory(os.path.join(root, "c5"), verbose=0)
            a = define("def k(x):\n    return ('a', x)\n", "k", "modk5")
            b = define("def k(x):\n    return ('b', x)\n", "k", "modk5")
            ca, cb = mem5.cache(a), mem5.cache(b)
            ca(1); cb(1)
            r5 = (ca(1), cb(1), ca(1))
            cases += 1
            if r5 != (("a", 1), ("b", 1), ("a", 1)):
                return dict(violation=True, cases=cases, what="two live definitions under one name: the calls a, b, a returned %r" % (r5,), witness="a = def k(x): ('a', x); b = def k(x): ('b', x); ca(1); cb(1); then ca(1), cb(1), ca(1)")

            # two live definitions cached under one identifier: EVERY history of calls a(1) / b(1) / "new session" (the in-process table is
            # dropped and the wrappers are rebuilt, the function objects stay) up to length 6, for def-functions and for lambdas - each call
            # must return what its own code computes (seeded change C12-code-check-remembered-per-wrapper: a per-wrapper "already checked" flag)
            import itertools as _it
            fa = define("def k(x):\n    return ('a', x)\n", "k", "modhist")
            fb = define("def k(x):\n    return ('b', x)\n", "k", "modhist")
            lam = define("la = lambda x: ('a', x)\nlb = lambda x: ('b', x)\n", "la", "modlam").__globals__
            for kind, (ga, gb) in (("def", (fa, fb)), ("lambda", (lam["la"], lam["lb"]))):
                for n_ops in range(2, 7):
                    for hist in _it.product("abS", repeat=n_ops):
                        if hist[0] == "S" or "a" not in hist or "b" not in hist:
                            continue
                        fresh_process_state()
                        hdir = tempfile.mkdtemp(prefix="h", dir=root)
                        hm = Memory(hdir, verbose=0)
                        wa, wb = hm.cache(ga), hm.cache(gb)
                        got = []
                        for op in hist:
                            if op == "S":
                                fresh_process_state()
                                hm = Memory(hdir, verbose=0)
                                wa, wb = hm.cache(ga), hm.cache(gb)
                            else:
                                got.append((wa if op == "a" else wb)(1))
                        cases += 1
                        want = [(op, 1) for op in hist if op != "S"]
                        shutil.rmtree(hdir, ignore_errors=True)
                        if got != want:
                            return dict(violation=True, cases=cases, what="two live %s definitions under one identifier, history %s: calls returned %r, their own code computes %r" % (kind, "".join(hist), got, want),
                                        witness="a(1) / b(1) / S = new session (table dropped, wrappers rebuilt): %s" % "".join(hist))

        # ---------------- C05: crash states, fresh process, with and without expires_after
        if which in ("all", "C05"):
            def documented_callback(metadata):
                # the example of doc/memory.rst: only results that were expensive to compute are kept
                return metadata["duration"] >= 0
            for cvc in (None, expires_after(days=1), documented_callback):
                base = os.path.join(root, "c3_%s" % (getattr(cvc, "__name__", cvc),))
                q = define("def q(x):\n    return ('q', x)\n", "q", "modc5")
                mem = Memory(base, verbose=0)
                cq = mem.cache(q, cache_validation_callback=cvc)
                cq(1)
                func_dir = os.path.join(base, "joblib", cq.func_id)
                entry = [d for d in os.listdir(func_dir) if os.path.isdir(os.path.join(func_dir, d))][0]
                snap = base + "_snap"
                shutil.copytree(base, snap)
                code_path = os.path.join(cq.func_id, "func_code.py")
                code_len = os.path.getsize(os.path.join(base, "joblib", code_path))
                states = [("no-metadata", lambda r: os.unlink(os.path.join(r, "joblib", cq.func_id, entry, "metadata.json"))),
                          ("no-output", lambda r: os.unlink(os.path.join(r, "joblib", cq.func_id, entry, "output.pkl"))),
                          ("empty-entry-dir", lambda r: [os.unlink(os.path.join(r, "joblib", cq.func_id, entry, x)) for x in os.listdir(os.path.join(r, "joblib", cq.func_id, entry))]),
                          ("leftover-temp", lambda r: open(os.path.join(r, "joblib", cq.func_id, entry, "output.pkl.thread-1-pid-2"), "wb").write(b"\x80\x04")),
                          ("torn-output", lambda r: open(os.path.join(r, "joblib", cq.func_id, entry, "output.pkl"), "r+b").truncate(5)),
                          ("torn-metadata", lambda r: open(os.path.join(r, "joblib", cq.func_id, entry, "metadata.json"), "r+b").truncate(7)),
                          ("no-func-dir-content", lambda r: shutil.rmtree(os.path.join(r, "joblib", cq.func_id)))]
                for n in range(0, code_len):
                    states.append(("torn-func_code@%d" % n, lambda r, n=n: open(os.path.join(r, "joblib", code_path), "r+b").truncate(n)))
                for label, damage in states:
                    cases += 1
                    shutil.rmtree(base)
                    shutil.copytree(snap, base)
                    damage(base)
                    fresh_process_state()
                    m2 = Memory(base, verbose=0)
                    c2 = m2.cache(q, cache_validation_callback=cvc)
                    try:
                        r = c2(1)
                    except Exception as e:
                        return dict(violation=True, cases=cases, what="crash state %s: the call raised %r" % (label, e), witness=dict(state=label, callback=getattr(cvc, "__qualname__", None)))
                    if r != ("q", 1):
                        return dict(violation=True, cases=cases, what="crash state %s: wrong value %r" % (label, r), witness=label)
            # an output that cannot be pickled: nothing half-written may be published under the final name (no kill involved)
            import io as _io
            baseu = os.path.join(root, "c4u")
            unp = define("def unp(x):\n    return [b'x' * 100000, (lambda: x)]\n", "unp", "modunp")
            cu_ = Memory(baseu, verbose=0).cache(unp)
            cases += 1
            with warnings.catch_warnings():
                warnings.simplefilter("ignore")
                cu_(1)
            # ... and with mmap_mode the call still returns the value although nothing could be stored to re-load it from
            cases += 1
            cm_ = Memory(baseu + "_mmap", verbose=0, mmap_mode="r").cache(unp)
            try:
                with warnings.catch_warnings():
                    warnings.simplefilter("ignore")
                    r = cm_(2)
                if r[0] != b"x" * 100000:
                    return dict(violation=True, cases=cases, what="mmap_mode: wrong value for an output that cannot be stored", witness="mmap_mode='r'")
            except Exception as e:  # noqa
                return dict(violation=True, cases=cases, what="mmap_mode='r': a call whose result cannot be stored (or was evicted before the re-load) raised %r" % (e,),
                            witness="Memory(mmap_mode='r').cache(f)(2) with f returning [b'x' * 100000, lambda: x]")
            outs = [os.path.join(dp, f) for dp, _dn, fs_ in os.walk(baseu) for f in fs_ if f == "output.pkl"]
            for o in outs:
                import joblib as _jl
                try:
                    _jl.load(o)
                except Exception as e:  # noqa
                    return dict(violation=True, cases=cases, what="a result that failed to pickle was published under its final name as a truncated file: load raises %r; check_call_in_cache -> %r"
                                % (e, cu_.check_call_in_cache(1)), witness="cached function returning [b'x' * 100000, lambda: x]")
            # a kill at every file-system removal made while the cache of an edited function is wiped (MemorizedFunc.clear):
            # whatever is left on disk, the next session never serves a result of the old code
            import subprocess
            base = os.path.join(root, "c4")
            srcdir = define.dir
            child = (
                "import os, sys, textwrap\n"
                "sys.path.insert(0, %r)\n"
                "import replay_mem_helper as H\n"
                "kill_at = int(sys.argv[1])\n"
                "count = [0]\n"
                "def wrap(fn):\n"
                "    def w(*a, **k):\n"
                "        count[0] += 1\n"
                "        if count[0] == kill_at:\n"
                "            os._exit(9)\n"
                "        return fn(*a, **k)\n"
                "    return w\n"
                "os.unlink, os.rmdir, os.remove = wrap(os.unlink), wrap(os.rmdir), wrap(os.remove)\n"
                "files_first = sys.argv[2] == 'files-first'\n"
                "_scandir = os.scandir\n"
                "class Ordered:\n"
                "    # the order in which a directory is listed is unspecified: try both extremes\n"
                "    def __init__(self, it):\n"
                "        self.it = it\n"
                "        self.entries = sorted(list(it), key=lambda e: (e.is_dir(follow_symlinks=False) == files_first, e.name))\n"
                "    def __enter__(self): return self\n"
                "    def __exit__(self, *a): self.it.close()\n"
                "    def __iter__(self): return iter(self.entries)\n"
                "    def close(self): self.it.close()\n"
                "os.scandir = lambda *a, **k: Ordered(_scandir(*a, **k))\n"
                "from joblib import Memory\n"
                "new = H.define(%r, 'def w(x):\\n    return (\\'new\\', x)\\n', 'w', 'modk3')\n"
                "Memory(%r, verbose=0).cache(new)(1)\n"
                "print('removals', count[0])\n") % (os.path.dirname(os.path.abspath(__file__)), srcdir, base)
            snap = base + "_snap"
            old = define("def w(x):\n    return ('old', x)\n", "w", "modk3")
            co = Memory(base, verbose=0).cache(old)
            for i in range(1, 4):
                co(i)
            shutil.copytree(base, snap)
            kill_at, listing = 1, "files-first"
            while True:
                shutil.rmtree(base)
                shutil.copytree(snap, base)
                pr = subprocess.run([sys.executable, "-c", child, str(kill_at), listing], capture_output=True, text=True, timeout=120)
                cases += 1
                fresh_process_state()
                new = define("def w(x):\n    return ('new', x)\n", "w", "modk3")
                cn = Memory(base, verbose=0).cache(new)
                got = [cn(i) for i in range(1, 4)]
                if got != [("new", i) for i in range(1, 4)]:
                    return dict(violation=True, cases=cases, what="process killed at the %d-th file removal while the cache of an edited function was wiped: the next session got %r" % (kill_at, got),
                                witness=dict(kill_at_removal=kill_at, directory_listing_order=listing, child_exit=pr.returncode))
                if pr.returncode == 0:
                    if listing == "files-first":
                        kill_at, listing = 1, "directories-first"
                        continue
                    break  # the wipe ran to completion: every earlier kill point has been tried, under both listing orders
                if pr.returncode != 9:
                    return dict(violation=True, cases=cases, what="harness: crash child failed: %s" % pr.stderr.strip().splitlines()[-1:], witness=kill_at)
                kill_at += 1
                if kill_at > 60:
                    break

        # ---------------- extract_first_line: inverse of the formatting, total on every prefix
        if which in ("all", "C05", "C12"):
            for line in (-1, 0, 7, 123456):
                for code in ("def f(x):\n    return x\n", "", "x = 1"):
                    text = "%s %i\n%s" % (FIRST_LINE_TEXT, line, code)
                    cases += 1
                    if extract_first_line(text) != (code, line):
                        return dict(violation=True, cases=cases, what="extract_first_line is not the inverse of the header formatting", witness=text)
                    for n in range(len(text)):
                        cases += 1
                        try:
                            extract_first_line(text[:n])
                        except Exception as e:
                            return dict(violation=True, cases=cases, what="extract_first_line raised %r on a torn file" % (e,), witness=text[:n])
    finally:
        shutil.rmtree(root, ignore_errors=True)
    return dict(violation=False, cases=cases, known=known)


if __name__ == "__main__":
    try:
        out = scenarios(sys.argv[1] if len(sys.argv) > 1 else "all")
    except Exception as e:
        import traceback
        out = dict(violation=True, cases=0, what="harness/scenario exception %r" % (e,), witness=traceback.format_exc()[-800:])
    print(json.dumps(out, default=repr))
    sys.exit(1 if out["violation"] else 0)
