"""Native bounded check for C08: joblib.hash across interpreter processes with different PYTHONHASHSEED, rebuilt
containers, equal-but-distinct strings, and type discrimination.  One JSON line; K1/K2 probes under "known"."""
import json
import os
import subprocess
import sys

BATTERY = r'''
import json, sys, decimal
import joblib
order = int(sys.argv[1])
def D(pairs):
    pairs = list(pairs)
    if order: pairs = pairs[::-1]
    return dict(pairs)
def S(items):
    items = list(items)
    if order: items = items[::-1]
    return set(items)
vals = {
 "int": 1, "float": 1.0, "bool": True, "str": "a", "bytes": b"a", "list": [1, 2], "tuple": (1, 2), "none": None,
 "dict_str": D([("x", 1), ("y", [1, 2]), ("zz", {"k": 2})]),
 "dict_mixed_keys": D([(1, "a"), ("b", 2), ((1, 2), 3)]),
 "dict_2500_int_keys": D([(i, str(i)) for i in range(2500)]),
 "dict_1001_str_keys": D([("k%d" % i, i) for i in range(1001)]),
 "nested_big_dict": [D([(i, i) for i in range(1500)]), "tail"],
 "set_3000": S(range(3000)),
 "set_str": S(["alpha", "beta", "gamma", "delta"]),
 "set_int": S([5, 3, 10 ** 20, -1]),
 "set_mixed": S([1, "a", (2, 3), None]),
 "nested": [D([("a", S(["p", "q"])), ("b", (S([1, 2]), "s"))])],
 "decimal_set": S([decimal.Decimal("1.5"), decimal.Decimal("NaN")]),
 "two_equal_strings": ["".join(["ab", "c"]), "abc", "a" + "bc"],
 "set_vs_frozenset_set": S([1, 2]),
 "list_vs_tuple_list": [1, 2], "list_vs_tuple_tuple": (1, 2),
 "leaf_a": {"k": [1, (2, {"z": 3})]}, "leaf_b": {"k": [1, (2, {"z": 4})]},
 "K1_frozenset_str": frozenset(S(["alpha", "beta", "gamma"])),
 "K1_frozenset_int": frozenset([1, 9]) if not order else frozenset([9, 1]),
 "K2_set_of_frozensets": S([frozenset(["a"]), frozenset(["b"]), frozenset(["a", "b"])]),
 "K2_dict_frozenset_keys": D([(frozenset(["a"]), 1), (frozenset(["b"]), 2)]),
}
print(json.dumps({k: joblib.hash(v) for k, v in vals.items()}))
'''


# discrimination over a recursive universe of builtin scalars and containers (no aliased sub-objects, no -0.0 / nan): for ALL pairs,
# equal digests  <=>  equal type-aware canonical form ("values that differ in content or in type get different digests"; 1, 1.0, True;
# 'a', b'a'; list / tuple; set / frozenset with the SAME members; any differing leaf)
PAIRS = r'''
import itertools, json, sys
import joblib
def leaves():
    # ... and classes / singletons as values (an argument like (int, type(None)) or Optional[int]): type(None), type(...), type(NotImplemented)
    # cannot be imported by name, pickle reduces them to type(<singleton>)
    return [0, 1, 2, 0.0, 1.0, True, False, None, "", "a", "1", b"", b"a", b"1", int, type(None), type(...), type(NotImplemented), ..., NotImplemented]
def hashable_leaves():
    return leaves()
def canon(v):
    t = type(v).__name__
    if isinstance(v, (list, tuple)):
        return (t, tuple(canon(x) for x in v))
    if isinstance(v, (set, frozenset)):
        return (t, tuple(sorted((canon(x) for x in v), key=repr)))
    if isinstance(v, dict):
        return (t, tuple(sorted(((canon(k), canon(x)) for k, x in v.items()), key=repr)))
    return (t, repr(v))
def level(elems, hashables):
    out = []
    small = list(itertools.chain.from_iterable(itertools.combinations(range(len(elems)), n) for n in (0, 1, 2)))
    for idx in small:
        xs = [elems[i]() for i in idx]
        out.append(lambda idx=idx: [elems[i]() for i in idx])
        out.append(lambda idx=idx: tuple(elems[i]() for i in idx))
    smallh = list(itertools.chain.from_iterable(itertools.combinations(range(len(hashables)), n) for n in (0, 1, 2)))
    for idx in smallh:
        out.append(lambda idx=idx: set(hashables[i]() for i in idx))
        out.append(lambda idx=idx: frozenset(hashables[i]() for i in idx))
        out.append(lambda idx=idx: {hashables[i](): j for j, i in enumerate(idx)})
        out.append(lambda idx=idx: {hashables[i](): "v" for i in idx})
    return out
L0 = [(lambda v=v: v) for v in leaves()]
L1 = level(L0, L0)
pick = L1[:: max(1, len(L1) // 40)]                       # a spread of first-level containers to nest once more
pickh = [f for f in pick if isinstance(f(), (tuple, frozenset))]
L2 = level(L0[:4] + pick[:10], L0[:3] + pickh[:6])
universe = [f() for f in L0 + L1 + L2]
digests = {}
for hn in ("md5", "sha1"):
    seen = {}
    bad = None
    for v in universe:
        try:
            c, h = canon(v), joblib.hash(v, hash_name=hn)
        except Exception as e:
            import pickle
            pickle.dumps(v)  # the value IS picklable (else the universe is wrong: let it crash)
            print(json.dumps(dict(ok=False, hash_name=hn, refused=True, pair=[repr(v), "%s: %s" % (type(e).__name__, str(e)[:200])], n=len(universe))))
            sys.exit(0)
        if h in seen and seen[h][0] != c:
            bad = [repr(seen[h][1]), repr(v)]
            break
        seen.setdefault(h, (c, v))
    if bad is None:
        byc = {}
        for h, (c, v) in seen.items():
            if c in byc:
                bad = ["same value, two digests", repr(v)]
                break
            byc[c] = h
    if bad:
        print(json.dumps(dict(ok=False, hash_name=hn, pair=bad, n=len(universe))))
        sys.exit(0)
# large leaves: the boundaries between neighbouring values must survive whatever their size (64 KiB, 1 MiB: typical thresholds of
# "fast paths" for big buffers) - [a, b] vs [a + b[:1], b[1:]], and a value vs the same bytes split in two
for size in (70000, 1100000):
    for mk in (lambda c: c.encode() * size, lambda c: bytearray(c.encode() * size), lambda c: c * size):
        a, b = mk("x"), mk("y")
        pairs = [([a, b], [a + b[:1], b[1:]]), ((a, b), (a[:-1], a[-1:] + b)), ([a + b], [a, b]), ({"k": a, "l": b}, {"k": a + b[:1], "l": b[1:]})]
        for u, v in pairs:
            for hn in ("md5", "sha1"):
                if joblib.hash(u, hash_name=hn) == joblib.hash(v, hash_name=hn):
                    print(json.dumps(dict(ok=False, hash_name=hn, pair=["%s of two %s of %d items" % (type(u).__name__, type(a).__name__, size), "the same contents with the boundary moved by one item"], n=len(universe))))
                    sys.exit(0)
print(json.dumps(dict(ok=True, n=len(universe), pairs=len(universe) * (len(universe) - 1) // 2)))
'''


# history independence: the digest of a value does not depend on what was hashed earlier in the same process
HISTORY = r'''
import json, sys
import joblib
probes = [
 {"name": "x", 1.0: "w"}, {"name": "x", True: "w"}, {"name": "x", 1: "w"},
 {("k", 1), "z"}, {("k", 1.0), "z"}, {("k", True), "z"},
 {("k", 1): "v", "z": 0}, {("k", 1.0): "v", "z": 0},
 [{"a", 1}, {"a", 1.0}, {"a", True}],
 {1: "a", "b": 2}, {1.0: "a", "b": 2}, {True: "a", "b": 2},
 {(1, "a"), (1.0, "a"), "q"},
]
mode = sys.argv[1]
if mode == "alone":
    print(json.dumps([joblib.hash(probes[int(sys.argv[2])])]))
else:
    idx = list(range(len(probes)))
    if mode == "backward": idx = idx[::-1]
    out = {}
    for rnd in range(2):
        for i in idx:
            out.setdefault(i, []).append(joblib.hash(probes[i]))
    print(json.dumps(out))
'''
N_HISTORY = 13


def run_history(*argv):
    out = subprocess.run([sys.executable, "-c", HISTORY] + [str(a) for a in argv], capture_output=True, text=True, timeout=120)
    if out.returncode != 0:
        raise RuntimeError(out.stderr[-800:])
    return json.loads(out.stdout.strip().splitlines()[-1])


def history(cases):
    alone = [run_history("alone", i)[0] for i in range(N_HISTORY)]
    for mode in ("forward", "backward"):
        got = run_history(mode)
        for i in range(N_HISTORY):
            cases += 1
            if any(h != alone[i] for h in got[str(i)]):
                return cases, dict(violation=True, cases=cases, what="digest of probe %d depends on what was hashed before it in the same process (%s pass): %r vs %r alone"
                                   % (i, mode, got[str(i)], alone[i]), witness=dict(probe_index=i, order=mode))
    if len(set(alone)) != len(alone):
        dup = [i for i in range(N_HISTORY) if alone.count(alone[i]) > 1]
        return cases, dict(violation=True, cases=cases, what="type-differing probes %r share a digest" % (dup,), witness=dup)
    return cases, None


def run(seed, order):
    env = dict(os.environ)
    env["PYTHONHASHSEED"] = str(seed)
    out = subprocess.run([sys.executable, "-c", BATTERY, str(order)], capture_output=True, text=True, env=env, timeout=120)
    if out.returncode != 0:
        raise RuntimeError(out.stderr[-800:])
    return json.loads(out.stdout.strip().splitlines()[-1])


def pairs_only():
    pr = subprocess.run([sys.executable, "-c", PAIRS], capture_output=True, text=True, timeout=600)
    if pr.returncode != 0:
        raise RuntimeError(pr.stderr[-800:])
    res = json.loads(pr.stdout.strip().splitlines()[-1])
    if not res["ok"] and res.get("refused"):
        return dict(violation=True, cases=res["n"], what="joblib.hash refuses a value that pickle accepts (a cached function cannot be called with it): %s" % " -> ".join(res["pair"]),
                    witness=res["pair"])
    if not res["ok"]:
        return dict(violation=True, cases=res["n"], what="two values that differ in content or type get the same %s digest (or one value two): %s" % (res["hash_name"], " / ".join(res["pair"])),
                    witness=res["pair"])
    return dict(violation=False, cases=res["pairs"])


def main(nseeds):
    cases = 0
    ref = run(0, 0)
    known = {"K1": False, "K2": False}
    for seed in range(nseeds):
        for order in (0, 1):
            got = run(seed + 1, order)
            for k in ref:
                cases += 1
                if got[k] != ref[k]:
                    if k.startswith("K1"):
                        known["K1"] = True
                    elif k.startswith("K2"):
                        known["K2"] = True
                    else:
                        return dict(violation=True, cases=cases, what="hash of %s differs between PYTHONHASHSEED=0/order 0 and seed %d/order %d" % (k, seed + 1, order),
                                    witness=dict(value=k, seed=seed + 1, reversed_construction=bool(order)), known=known)
    # type / content discrimination
    groups = [("int", "float", "bool"), ("str", "bytes"), ("list_vs_tuple_list", "list_vs_tuple_tuple"), ("leaf_a", "leaf_b"),
              ("set_vs_frozenset_set", "K1_frozenset_int", "list")]
    for g in groups:
        cases += 1
        hs = [ref[k] for k in g]
        if len(set(hs)) != len(hs):
            return dict(violation=True, cases=cases, what="values %r do not all get different digests" % (g,), witness=list(g), known=known)
    # K14 (recorded finding): in the fallback for unorderable elements / keys a container is hashed through the digests of its members,
    # and so collides with the container OF those digests
    probe = ("import joblib, json\n"
             "a = joblib.hash({1, 'a'}) == joblib.hash({joblib.hash(1), joblib.hash('a')})\n"
             "b = joblib.hash({1: 'x', 'a': 'y'}) == joblib.hash({joblib.hash(1): 'x', joblib.hash('a'): 'y'})\n"
             "print(json.dumps([a, b]))\n")
    pr = subprocess.run([sys.executable, "-c", probe], capture_output=True, text=True, timeout=120)
    coll = json.loads(pr.stdout.strip().splitlines()[-1]) if pr.returncode == 0 else [False, False]
    known["K14"] = ("hash({1, 'a'}) == hash({hash(1), hash('a')}): %r; same for dict keys: %r" % tuple(coll)) if any(coll) else False
    pr = subprocess.run([sys.executable, "-c", PAIRS], capture_output=True, text=True, timeout=600)
    if pr.returncode != 0:
        raise RuntimeError(pr.stderr[-800:])
    res = json.loads(pr.stdout.strip().splitlines()[-1])
    cases += res.get("pairs", res["n"])
    if not res["ok"] and res.get("refused"):
        return dict(violation=True, cases=cases, what="joblib.hash refuses a value that pickle accepts (a cached function cannot be called with it): %s" % " -> ".join(res["pair"]),
                    witness=res["pair"], known=known)
    if not res["ok"]:
        return dict(violation=True, cases=cases, what="two values that differ in content or type get the same %s digest (or one value two): %s" % (res["hash_name"], " / ".join(res["pair"])),
                    witness=res["pair"], known=known)
    cases, bad = history(cases)
    if bad:
        bad["known"] = known
        return bad
    return dict(violation=False, cases=cases, known=known)


# numpy arrays (run with the numpy overlay interpreter): digests tell apart what tells arrays apart - element bytes, dtype, shape, memory
# order, class - and nothing else: an equal copy, the same array after a pickle round trip or in another process gets the same digest
NUMPY = r'''
import itertools, json, os, pickle, subprocess, sys, tempfile
import numpy as np
import joblib
def universe():
    out = []
    base = {"u1": np.arange(6, dtype="u1"), "i2": np.arange(6, dtype="<i2"), "i2be": np.arange(6, dtype=">i2"), "f4": np.arange(6, dtype="f4"), "f8": np.arange(6, dtype="f8"),
            "b": np.array([True, False] * 3), "S1": np.array([b"a", b"b", b"c", b"d", b"e", b"f"]), "U1": np.array(list("abcdef")),
            "dt": np.arange(6).astype("datetime64[s]"), "rec": np.zeros(6, dtype=[("a", "u1"), ("b", "<i2")])}
    for name, a in base.items():
        out.append((name + ":1d", a))
        out.append((name + ":2x3", a.reshape(2, 3)))
        out.append((name + ":3x2", a.reshape(3, 2)))
        out.append((name + ":2x3F", np.asfortranarray(a.reshape(2, 3))))
        out.append((name + ":rev", a[::-1]))
        out.append((name + ":step2", a[::2]))
        out.append((name + ":0d", a[0:1].reshape(())))
        out.append((name + ":empty", a[:0]))
        b = a.copy()
        if b.dtype.kind not in "V":
            b[-1] = b[0]
        else:
            b["a"][-1] = 9
        out.append((name + ":1d-other-content", b))
    # shapes that differ where neither the bytes nor the strides do (empty arrays), and arrays that differ only far from their start
    for shp in ((2, 0), (3, 0), (0, 2), (0, 3), (0,), (0, 0)):
        out.append(("empty-u1:%r" % (shp,), np.zeros(shp, dtype="u1")))
    for size in (5000, 70000, 1100000):
        z = np.zeros(size, dtype="u1")
        out.append(("zeros:%d" % size, z))
        for pos in (size - 1, size // 2):
            y = z.copy()
            y[pos] = 1
            out.append(("zeros:%d-but-one-at-%d" % (size, pos), y))
    out.append(("obj:1d", np.array([1, "a", None], dtype=object)))
    out.append(("obj:other", np.array([1, "a", 0], dtype=object)))
    out.append(("matrix", np.matrix(np.arange(6, dtype="f8").reshape(2, 3))))
    out.append(("dtype-f4", np.dtype("f4")))
    out.append(("dtype-f8", np.dtype("f8")))
    out.append(("dtype-rec", np.dtype([("a", "u1")])))
    out.append(("scalar-f4", np.float32(1.0)))
    out.append(("scalar-f8", np.float64(1.0)))
    out.append(("list-of-arrays", [np.arange(3), np.arange(3)]))
    out.append(("list-of-one-array-twice", [np.arange(3)] * 2))
    out.append(("dict-of-arrays", {"x": np.arange(3), "y": np.arange(3.0)}))
    return out
if len(sys.argv) > 1 and sys.argv[1] == "digests":
    print(json.dumps({n: joblib.hash(v) for n, v in universe()}))
    sys.exit(0)
U = universe()
bad = None
for hn in ("md5", "sha1"):
    seen = {}
    for n, v in U:
        h = joblib.hash(v, hash_name=hn)
        if h in seen and not (n.startswith("list-of") and seen[h].startswith("list-of")) and not bad:
            bad = "%s and %s get the same %s digest" % (seen[h], n, hn)
        seen.setdefault(h, n)
        # an equal copy, and the same value after a pickle round trip, hash alike
        for how, w in (("copy", pickle.loads(pickle.dumps(v)) if not isinstance(v, np.ndarray) else v.copy(order="K")), ("pickle round trip", pickle.loads(pickle.dumps(v)))):
            if isinstance(v, np.ndarray) and isinstance(w, np.ndarray) and (w.strides != v.strides or w.flags.c_contiguous != v.flags.c_contiguous or w.dtype != v.dtype):
                continue  # numpy normalised the layout: another value as far as joblib.hash is concerned (strides are part of it)
            if joblib.hash(w, hash_name=hn) != h and not bad:
                bad = "%s: %s of the value gets another %s digest" % (n, how, hn)
    if bad:
        break
# memmap vs in-memory array: told apart by default, alike with coerce_mmap
d = tempfile.mkdtemp()
a = np.arange(50, dtype="f8")
m = np.memmap(os.path.join(d, "m.bin"), dtype="f8", mode="w+", shape=(50,))
m[:] = a
if not bad and joblib.hash(m) == joblib.hash(a):
    bad = "a memmap and an equal in-memory array get the same digest without coerce_mmap"
if not bad and joblib.hash(m, coerce_mmap=True) != joblib.hash(a, coerce_mmap=True):
    bad = "coerce_mmap=True: a memmap and an equal in-memory array get different digests"
del m
import shutil
shutil.rmtree(d, ignore_errors=True)
print(json.dumps(dict(ok=not bad, what=bad, n=len(U))))
'''


def numpy_only():
    import tempfile
    with tempfile.NamedTemporaryFile("w", suffix=".py", delete=False) as f:
        f.write(NUMPY)
    try:
        pr = subprocess.run([sys.executable, f.name], capture_output=True, text=True, timeout=600)
        if pr.returncode != 0:
            raise RuntimeError(pr.stderr[-800:])
        res = json.loads(pr.stdout.strip().splitlines()[-1])
        if not res["ok"]:
            return dict(violation=True, cases=res["n"], what="numpy values: " + res["what"], witness=res["what"])
        # another process with another string-hash seed gives the same digests
        ref = None
        for seed in ("0", "4242", "random"):
            pr = subprocess.run([sys.executable, f.name, "digests"], capture_output=True, text=True, timeout=600, env=dict(os.environ, PYTHONHASHSEED=seed))
            if pr.returncode != 0:
                raise RuntimeError(pr.stderr[-800:])
            dg = json.loads(pr.stdout.strip().splitlines()[-1])
            if ref is not None and dg != ref:
                diff = sorted(k for k in dg if dg[k] != ref[k])
                return dict(violation=True, cases=res["n"], what="numpy values: digest differs between two interpreter processes (PYTHONHASHSEED): %s" % diff[:5], witness=diff[:5])
            ref = dg
        return dict(violation=False, cases=res["n"] * (res["n"] - 1) // 2)
    finally:
        os.unlink(f.name)


if __name__ == "__main__":
    try:
        out = pairs_only() if sys.argv[1] == "pairs" else numpy_only() if sys.argv[1] == "numpy" else main(int(sys.argv[1]))
    except Exception as e:
        out = dict(violation=True, cases=0, what="harness error %r" % (e,), witness=None)
    print(json.dumps(out))
    sys.exit(1 if out["violation"] else 0)
