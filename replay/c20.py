"""Native bounded check for C20: the REAL resource_tracker.main in a child process, fed random request histories
(balanced, unbalanced, malformed, unknown types), clean-up functions replaced by recorders (some raising).
Compared with the reference refcount model.  One JSON line."""
import json
import os
import random
import subprocess
import sys
import tempfile

CHILD = r'''
import os, sys, json
log = open(sys.argv[2], "a")
import joblib._memmapping_reducer  # installs unlink_file as in production
from joblib.externals.loky.backend import resource_tracker as rt
def rec(t):
    def f(name):
        log.write(json.dumps([t, name]) + "\n"); log.flush()
        if name.endswith("!"):
            raise OSError("boom")
    return f
for t in list(rt._CLEANUP_FUNCS):
    rt._CLEANUP_FUNCS[t] = rec(t)
rt.main(int(sys.argv[1]))
log.write(json.dumps(["END", ""]) + "\n"); log.flush()
'''


def model(lines, types):
    reg = {t: {} for t in types}
    cleaned = []
    for ln in lines:
        try:
            parts = ln.strip().decode("ascii").split(":")
        except Exception:
            continue
        cmd, name, t = parts[0], ":".join(parts[1:-1]), parts[-1]
        if cmd == "PROBE" or t not in reg:
            continue
        if cmd == "REGISTER":
            reg[t][name] = reg[t].get(name, 0) + 1
        elif cmd == "UNREGISTER":
            reg[t].pop(name, None)
        elif cmd == "MAYBE_UNLINK":
            if name in reg[t]:
                reg[t][name] -= 1
                if reg[t][name] == 0:
                    del reg[t][name]
                    cleaned.append([t, name])
    final = []
    for t in types:
        if t != "folder":
            final += [[t, n] for n in reg[t]]
    final += [["folder", n] for n in reg.get("folder", {})]
    return cleaned, final


def search(seed, rounds):
    rnd = random.Random(seed)
    types = ["folder", "file", "semlock"]
    # (names that are string prefixes / path prefixes of one another: a folder, a file inside it, a sibling whose name merely starts alike)
    names = ["a", "a/f", "a.pkl", "ab/g", "c:d", "e!", ""]
    cases = 0
    # directed histories: a folder and a file whose names are related go through their life cycles in both orders - deleting one must
    # neither forget nor delete the other (seeded change C20-prune-files-of-deleted-folder)
    directed = []
    for f in names:
        for g in names:
            directed.append([("REGISTER", f, "folder"), ("REGISTER", g, "file"), ("MAYBE_UNLINK", f, "folder"), ("MAYBE_UNLINK", g, "file")])
            directed.append([("REGISTER", g, "file"), ("REGISTER", g, "file"), ("REGISTER", f, "folder"), ("MAYBE_UNLINK", f, "folder"), ("MAYBE_UNLINK", g, "file")])
    # all of them in ONE tracker process: the names of history k are prefixed with "h<k>-", which keeps the prefix relations inside a history
    # and makes different histories unrelated
    directed_lines = [("%s:h%d-%s:%s\n" % (cmd, k, name, t)).encode() for k, h in enumerate(directed) for (cmd, name, t) in h]
    for r in range(1 + rounds):
        lines = []
        if r == 0:
            lines = list(directed_lines)
        for _ in range(rnd.randint(0, 25) if r >= 1 else 0):
            k = rnd.random()
            if k < 0.8:
                cmd = rnd.choice(["REGISTER", "REGISTER", "MAYBE_UNLINK", "MAYBE_UNLINK", "UNREGISTER", "PROBE"])
                lines.append(("%s:%s:%s\n" % (cmd, rnd.choice(names), rnd.choice(types + ["bogus"]))).encode())
            elif k < 0.9:
                lines.append(rnd.choice([b"garbage\n", b"\n", b"\xff\xfe:x:file\n", b"DELETE:a:file\n", b"REGISTER\n", b":::\n"]))
            else:
                lines.append(("MAYBE_UNLINK:%s:%s\n" % (rnd.choice(names), rnd.choice(types))).encode())
        rfd, wfd = os.pipe()
        with tempfile.NamedTemporaryFile("w", suffix=".log", delete=False) as lf:
            logname = lf.name
        env = dict(os.environ)
        # the tracker inherits the interpreter flags of its first client: warnings ignored, printed, or turned into errors
        wflag = ("ignore", "error", "default")[r % 3]
        p = subprocess.Popen([sys.executable, "-W", wflag, "-c", CHILD, str(rfd), logname], pass_fds=[rfd], env=env,
                             stdout=subprocess.DEVNULL, stderr=subprocess.DEVNULL)
        os.close(rfd)
        for ln in lines:
            os.write(wfd, ln)
        os.close(wfd)  # EOF: last client gone
        try:
            p.wait(timeout=30)
        except subprocess.TimeoutExpired:
            p.kill()
            return dict(violation=True, cases=cases, what="tracker did not exit after EOF", witness=[l.decode("latin1") for l in lines])
        got = [json.loads(x) for x in open(logname)]
        os.unlink(logname)
        cases += 1
        cleaned, final = model(lines, types)
        if ["END", ""] not in got:
            return dict(violation=True, cases=cases, what="tracker (python -W %s) stopped with an exception before finishing the clean-up; log %r" % (wflag, got),
                        witness=dict(warnings=wflag, lines=[l.decode("latin1") for l in lines]))
        got = [g for g in got if g[0] != "END"]
        during, after = got[:len(cleaned)], got[len(cleaned):]
        if during != cleaned or sorted(after) != sorted(final) or [g[0] for g in after] != sorted([g[0] for g in after], key=lambda t: t == "folder"):
            return dict(violation=True, cases=cases, what="clean-ups %r, expected %r then (any order, folders last) %r" % (got, cleaned, final),
                        witness=[l.decode("latin1") for l in lines])
    # unlink_file retry loop: terminates, tolerates FileNotFoundError, at most 10 attempts
    import joblib._memmapping_reducer as mr
    calls = []
    real_unlink, real_sleep = mr.os.unlink, mr.time.sleep
    try:
        mr.time.sleep = lambda s: None
        for mode in ("ok", "missing", "perm-forever", "perm-3"):
            del calls[:]
            def fake(fn, mode=mode):
                calls.append(fn)
                if mode == "missing":
                    raise FileNotFoundError(fn)
                if mode == "perm-forever" or (mode == "perm-3" and len(calls) <= 3):
                    raise PermissionError(fn)
            mr.os.unlink = fake
            cases += 1
            try:
                mr.unlink_file("x")
                raised = False
            except PermissionError:
                raised = True
            # (a missing file is retried 10 times by the current code: harmless, bounded)
            exp = {"ok": (1, False), "missing": (10, False), "perm-forever": (10, True), "perm-3": (4, False)}[mode]
            if (len(calls), raised) != exp:
                return dict(violation=True, cases=cases, what="unlink_file[%s]: %d attempts, raised=%s" % (mode, len(calls), raised), witness=mode)
    finally:
        mr.os.unlink, mr.time.sleep = real_unlink, real_sleep
    return dict(violation=False, cases=cases)


if __name__ == "__main__":
    out = search(int(sys.argv[1]), int(sys.argv[2]))
    print(json.dumps(out))
    sys.exit(1 if out["violation"] else 0)
