import time, sys
from joblib import Parallel, delayed
def slow_input(tag, n, fail_at):
    for i in range(n):
        time.sleep(0.02)
        yield delayed(task)(tag, i, i == fail_at)
def task(tag, i, fail):
    if fail:
        raise ValueError("boom")
    time.sleep(0.01)
    return (tag, i)
bad = 0
for fail_at in range(8, 14):
    with Parallel(n_jobs=2, batch_size=1, pre_dispatch=4, backend="threading") as p:
        try:
            p(slow_input("old", 40, fail_at))
        except ValueError as e:
            pass
        q = p._ready_batches.qsize()
        out = p(slow_input("new", 6, -1))
        print(fail_at, "stale batches in queue:", q, out)
        if any(t != "new" for t, _ in out): bad += 1
sys.exit(1 if bad else 0)
