"""Path context: replay-forking, path condition, obligations, solver access."""
import os
import subprocess
import tempfile
import time

import z3

from .values import Unsupported

RLIMIT_QUICK = int(os.environ.get("PYVC_RLIMIT", "4000000"))
CVC5 = "/usr/bin/cvc5"


class Infeasible(Exception):
    """Current path condition is unsatisfiable: drop the path silently."""


class PathEnd(Exception):
    """The path was cut on purpose (loop back-edge after the invariant was re-established)."""


class ObligationResult:
    __slots__ = ("name", "status", "backend", "time_s", "model", "path", "detail", "smt_size")

    def __init__(self, name, status, backend, time_s, model=None, path=None, detail="", smt_size=0):
        self.name, self.status, self.backend, self.time_s = name, status, backend, time_s
        self.model, self.path, self.detail, self.smt_size = model, path, detail, smt_size

    def as_dict(self):
        return {
            "name": self.name,
            "status": self.status,
            "backend": self.backend,
            "time_s": round(self.time_s, 4),
            "path": self.path,
            "detail": self.detail,
            "smt_size": self.smt_size,
            "model": self.model,
        }


def cvc5_check(smt2, timeout_s=int(os.environ.get("PYVC_CVC5_S", "6")), strings=False):
    """Second-opinion solver on an SMT-LIB2 dump. Returns 'sat' / 'unsat' / 'unknown'."""
    with tempfile.NamedTemporaryFile("w", suffix=".smt2", delete=False) as f:
        f.write("(set-logic ALL)\n")
        f.write(smt2)
        f.write("\n(check-sat)\n")
        name = f.name
    try:
        cmd = [CVC5, "--tlimit=%d" % (timeout_s * 1000)]
        if strings:
            cmd.append("--strings-exp")
        out = subprocess.run(cmd + [name], capture_output=True, text=True, timeout=timeout_s + 5)
        first = (out.stdout.strip().splitlines() or ["unknown"])[0].strip()
        return first if first in ("sat", "unsat") else "unknown"
    except Exception:
        return "unknown"
    finally:
        os.unlink(name)


_QCACHE = {}


def has_quantifier(t):
    if isinstance(t, bool):
        return False
    seen = set()
    todo = [t]
    res = False
    while todo:
        x = todo.pop()
        i = x.get_id()
        if i in seen:
            continue
        seen.add(i)
        if z3.is_quantifier(x):
            res = True
            break
        todo.extend(x.children())
    return res


class Ctx:
    """One execution path.  Re-created (and the function re-executed) for every path."""

    def __init__(self, run, prefix):
        self.run = run  # FunctionRun: shared results, worklist
        self.prefix = list(prefix)
        self.decisions = []
        self.solver = z3.Solver()
        self.solver.set("rlimit", run.rlimit)
        # wall-clock safety net far above any normal query (milliseconds): z3's sequence solver does not account its search for long
        # string models (len(s) >= 65536) to rlimit and would run for ever; a timeout gives `unknown` (-> cvc5 / UNDECIDED), never a verdict
        self.solver.set("timeout", int(os.environ.get("PYVC_Z3_TIMEOUT_MS", "60000")))
        self.solver.set("random_seed", 0)
        # quantifier-free shadow of the path condition: used only for branch feasibility (over-approximation)
        self.fsolver = z3.Solver()
        self.fsolver.set("rlimit", 5000000)
        self.fsolver.set("timeout", int(os.environ.get("PYVC_Z3_BRANCH_TIMEOUT_MS", "15000")))  # unknown counts as feasible
        self.fsolver.set("random_seed", 0)
        self.counter = {}
        self.ghost = {}
        self.notes = []  # human-readable trail of decisions (for reports)
        self.lock_depth = {}
        self.exc_stack = []
        self.yields = []
        self.events = []  # ghost effect trace
        self.axioms_added = set()
        self.spec_depth = 0

    # -- names ---------------------------------------------------------------------
    def fresh_name(self, hint):
        n = self.counter.get(hint, 0)
        self.counter[hint] = n + 1
        return "%s!%d" % (hint, n) if n else hint

    # -- path condition ------------------------------------------------------------
    def assume(self, term):
        if isinstance(term, bool):
            if not term:
                raise Infeasible()
            return
        term = z3.simplify(term)
        if z3.is_true(term):
            return
        if z3.is_false(term):
            raise Infeasible()
        self._add(term)

    def _add(self, term):
        self.solver.add(term)
        if not has_quantifier(term):
            self.fsolver.add(term)

    def add_axiom(self, key, term):
        if key in self.axioms_added:
            return
        self.axioms_added.add(key)
        self._add(term)

    def _sat(self, term):
        """Feasibility (over-approximated: quantified facts are ignored; unknown counts as feasible)."""
        if has_quantifier(term):
            return z3.unknown
        self.fsolver.push()
        self.fsolver.add(term)
        r = self.fsolver.check()
        self.fsolver.pop()
        return r

    def _sat_full(self, term):
        self.solver.push()
        self.solver.add(term)
        r = self.solver.check()
        self.solver.pop()
        return r

    @property
    def replaying(self):
        return len(self.decisions) < len(self.prefix)

    def choose(self, n, note="", feasible=None):
        """n-way nondeterministic fork (always feasible unless `feasible` terms are given)."""
        if n == 1:
            return 0
        pos = len(self.decisions)
        if pos < len(self.prefix):
            d = self.prefix[pos]
        else:
            d = None
            for i in range(n):
                if feasible is not None and self._sat(feasible[i]) == z3.unsat:
                    continue
                if d is None:
                    d = i
                else:
                    self.run.push(self.decisions + [i])
            if d is None:
                raise Infeasible()
        self.decisions.append(d)
        self.notes.append("%s=%d" % (note, d))
        if feasible is not None:
            self.assume(feasible[d])
        return d

    def branch(self, cond, note=""):
        """Fork on a symbolic boolean.  `cond` is a python bool or a z3 BoolRef."""
        if isinstance(cond, bool):
            return cond
        cond = z3.simplify(cond)
        if z3.is_true(cond):
            return True
        if z3.is_false(cond):
            return False
        pos = len(self.decisions)
        if pos < len(self.prefix):
            d = self.prefix[pos]
        else:
            t = self._sat(cond) != z3.unsat
            f = self._sat(z3.Not(cond)) != z3.unsat
            if t and f:
                self.run.push(self.decisions + [0])
                d = 1
            elif t:
                d = 1
            elif f:
                d = 0
            else:
                raise Infeasible()
        self.decisions.append(d)
        if note:
            self.notes.append("%s=%s" % (note, bool(d)))
        self._add(cond if d else z3.Not(cond))
        return bool(d)

    # -- obligations ---------------------------------------------------------------
    def check(self, name, goal, detail=""):
        """Proof obligation: PC => goal.  Recorded once (not while replaying a prefix)."""
        if isinstance(goal, bool):
            goal = z3.BoolVal(goal)
        if self.replaying:
            self._add(goal)
            return
        goal_s = z3.simplify(goal)
        t0 = time.time()
        if os.environ.get("PYVC_DEBUG_GOAL") and os.environ["PYVC_DEBUG_GOAL"] in name:
            import sys as _sys
            print("DEBUG %s\n  goal: %s\n  path condition:\n    %s" % (name, goal, "\n    ".join(str(a) for a in self.solver.assertions())), file=_sys.stderr)
        if z3.is_true(goal_s):
            self.run.record(ObligationResult(name, "discharged", "simplify", 0.0, path=list(self.decisions), detail=detail))
            return
        self.solver.push()
        self.solver.add(z3.Not(goal))
        r = self.solver.check()
        model = None
        backend = "z3"
        smt_size = 0
        if r == z3.sat:
            # z3's sequence solver can answer `sat` with an assignment that does not satisfy the query (equal strings behind different
            # terms are not always merged for uninterpreted functions): a model that falsifies a quantifier-free assertion is no
            # counterexample - the answer is treated as `unknown` and the query goes to cvc5
            m = self.solver.model()
            if self._model_refuted(m):
                r = z3.unknown
                self.run.spurious_models = getattr(self.run, "spurious_models", 0) + 1
            else:
                model = self._model_dict(m)
        if r == z3.unknown:
            smt = self.solver.to_smt2()
            smt_size = len(smt)
            smt = smt.replace("(check-sat)", "")
            r2 = cvc5_check(smt, strings="Seq" in smt or "String" in smt)
            backend = "cvc5"
            if r2 == "unsat":
                r = z3.unsat
            elif r2 == "sat":
                r = z3.sat
                model = {"note": "cvc5 reported sat; no model extracted"}
        xcheck = None
        if r == z3.unsat and backend == "z3" and getattr(self.run, "cross_check", 0) and self.run.xcount < self.run.cross_check:
            # thorough tier: second opinion on a sample of z3's `unsat` answers
            self.run.xcount += 1
            smt = self.solver.to_smt2().replace("(check-sat)", "")
            r2 = cvc5_check(smt, timeout_s=10, strings="Seq" in smt or "String" in smt)
            xcheck = r2
        self.solver.pop()
        dt = time.time() - t0
        status = "discharged" if r == z3.unsat else ("failed" if r == z3.sat else "unknown")
        if xcheck == "sat":
            status, backend = "solver-disagreement", "z3:unsat/cvc5:sat"
        elif xcheck is not None:
            backend = "z3+cvc5:%s" % xcheck
        self.run.record(
            ObligationResult(
                name, status, backend, dt, model=model, path=list(self.decisions),
                detail=detail + (" | trail: " + ",".join(self.notes[-12:]) if status != "discharged" else ""),
                smt_size=smt_size,
            )
        )
        # assume the goal afterwards so that one defect is reported once
        self._add(goal)
        if status == "failed" and self._sat(z3.BoolVal(True)) == z3.unsat:
            raise Infeasible()

    def _model_refuted(self, m):
        """True if the model evaluates some quantifier-free assertion of the current query to false."""
        try:
            for a in self.solver.assertions():
                if has_quantifier(a):
                    continue
                v = m.eval(a, model_completion=True)
                if z3.is_false(v):
                    return True
        except z3.Z3Exception:
            return False
        return False

    def cover(self, name):
        """Reachability witness (vacuity guard): this program point is feasible."""
        if not self.replaying:
            self.run.covered.add(name)

    def _model_dict(self, m):
        out = {}
        for d in m.decls():
            if d.arity() == 0:
                try:
                    out[d.name()] = str(m[d])
                except Exception:
                    pass
        for d in m.decls():
            if d.arity() > 0 and len(out) < 400:
                try:
                    out[d.name()] = str(m[d])[:400]
                except Exception:
                    pass
        return out

    def unsupported(self, msg):
        raise Unsupported(msg)
