"""Symbolic interpreter over the real Python AST (code mode) and the spec language (spec mode)."""
import ast
import builtins as _py_builtins

import z3

from . import ops
from .contracts import Contract, SourceModule, loop_header, loops_of
from .ctx import Infeasible, PathEnd
from .values import (
    BOOL, BYTES, INT, REAL, STR, Atom, AttrGetter, BoundMethod, Builtin, ClassRef, Closure, ExcClass, GenExp, Kind,
    ListOf, ModuleRef, ObjOf, Opaque, PyDict, PyList, Rec, SDict, Sentinel, SExc, SList, SObj, Sym, TypeRef,
    Unsupported, is_concrete, kind_of, to_term, DictOf, Alternatives,
)


class PyRaise(Exception):
    def __init__(self, exc):
        self.exc = exc


class Ret(Exception):
    def __init__(self, value):
        self.value = value


class Brk(Exception):
    pass


class Cont(Exception):
    pass


class Env:
    def __init__(self, module, parent=None, qualname="", owner_cls=None):
        self.vars = {}
        self.parent = parent
        self.module = module
        self.qualname = qualname
        self.owner_cls = owner_cls
        self.globals_decl = set()
        self.old = None  # Env snapshot for old(...)
        self.extra = {}  # spec-only names (result, ghost)

    def lookup(self, name):
        e = self
        while e is not None:
            if name in e.vars:
                return e.vars[name]
            e = e.parent
        raise KeyError(name)

    def has(self, name):
        e = self
        while e is not None:
            if name in e.vars:
                return True
            e = e.parent
        return False

    def assign(self, name, value):
        self.vars[name] = value


BUILTIN_EXC = {
    n: ExcClass(n, pyclass=getattr(_py_builtins, n))
    for n in dir(_py_builtins)
    if isinstance(getattr(_py_builtins, n), type) and issubclass(getattr(_py_builtins, n), BaseException)
}
BUILTIN_EXC["IOError"] = BUILTIN_EXC["OSError"]
BUILTIN_EXC["EnvironmentError"] = BUILTIN_EXC["OSError"]
BUILTIN_TYPES = {"int", "str", "bytes", "bytearray", "bool", "float", "list", "tuple", "dict", "set", "frozenset", "object", "memoryview", "type"}

LOG_CALLS = {"print", "warnings.warn", "util.debug", "self.warn", "self.info", "self.debug", "logging.basicConfig",
             "self._print", "gc.collect"}


def exc(name, *args, **fields):
    return SExc(BUILTIN_EXC[name], args, **fields)


TRANSPARENT_DECORATORS = {"staticmethod", "classmethod", "property", "contextlib.contextmanager", "contextmanager", "abstractmethod", "abc.abstractmethod",
                          "functools.wraps", "wraps"}
CACHING_DECORATORS = {"functools.lru_cache", "lru_cache", "functools.cache", "cache"}
BUILTIN_NAMES = set(dir(__import__("builtins")))


class Interp:
    def __init__(self, ctx, pack, contract):
        self.ctx = ctx
        self.pack = pack
        self.contract = contract
        self.loop_ordinals = {}
        self.depth = 0
        self.spec_mode = 0
        self.module_cache = {}

    # =============================================================================
    # helpers
    # =============================================================================
    def raise_(self, name, *args, **fields):
        e = exc(name, *args, **fields)
        if self.ctx.exc_stack:
            e.fields.setdefault("__context__", self.ctx.exc_stack[-1])  # raised while another exception is being handled
        raise PyRaise(e)

    def branch(self, v, note=""):
        if isinstance(v, SDict):
            h = self.pack.models.get("truth:SDict")
            if h is not None:
                return self.ctx.branch(h(self, v), note)
        return self.ctx.branch(ops.truth(v), note)

    def unsupported(self, node, msg):
        where = ""
        if node is not None and hasattr(node, "lineno"):
            where = " at line %d: %s" % (node.lineno, ast.unparse(node)[:80])
        raise Unsupported(msg + where)

    # =============================================================================
    # global name resolution
    # =============================================================================
    def global_lookup(self, name, module):
        c = self.contract
        for src in ((c.globals if c is not None else {}), self.pack.globals):
            if name in src:
                v = src[name]
                fn = getattr(module, "funcs", {}).get(name) if module is not None else None
                if fn is not None:
                    for d in getattr(fn, "decorator_list", []):
                        base = ast.unparse(d).split("(")[0]
                        if base not in TRANSPARENT_DECORATORS:
                            # the trusted stand-in describes the undecorated function: a decorator (e.g. a cache) voids that assumption
                            raise Unsupported("assumed model of %s does not account for its decorator @%s" % (name, ast.unparse(d)))
                if isinstance(v, Kind) or callable(v):
                    g = self.ctx.ghost
                    if "global:" + name not in g:
                        g["global:" + name] = v.fresh(self.ctx, name) if isinstance(v, Kind) else v(self)
                    return g["global:" + name]
                return v
        key = (module.relpath, name)
        if key in self.module_cache:
            return self.module_cache[key]
        v = self._global_lookup(name, module)
        self.module_cache[key] = v
        return v

    def _global_lookup(self, name, module):
        if name in module.funcs and "." not in name:
            return Closure(module.funcs[name], Env(module), module)
        if name in module.classes:
            bases = module.class_bases(name)
            if self._is_exc_class(name, module):
                return ExcClass(name, [self.global_lookup(b, module) for b in bases if self._known_exc(b, module)])
            return ClassRef(name)
        if name in module.consts:
            node = module.consts[name]
            try:
                return self.eval(node, Env(module))
            except Unsupported:
                raise Unsupported("module constant %s of %s not evaluable: %s" % (name, module.relpath, ast.unparse(node)[:60]))
        if name in module.imports:
            target = module.imports[name]
            if target.startswith("."):
                resolved = self.pack.resolve_import(module, target)
                if resolved is not None:
                    mod2, nm2 = resolved
                    if nm2 is None:
                        return ModuleRef(target)
                    return self.global_lookup(nm2, mod2)
            return ModuleRef(target)
        if name in BUILTIN_EXC:
            return BUILTIN_EXC[name]
        if name in BUILTIN_TYPES:
            return TypeRef(name)
        if name in ("True", "False", "None"):
            return {"True": True, "False": False, "None": None}[name]
        return Builtin(name)

    def _known_exc(self, name, module):
        return name in BUILTIN_EXC or self._is_exc_class(name, module)

    def _is_exc_class(self, name, module):
        seen = set()
        todo = [name]
        while todo:
            n = todo.pop()
            if n in seen:
                continue
            seen.add(n)
            if n in BUILTIN_EXC:
                return True
            mod = self.pack.class_module(n) or module
            todo.extend(mod.class_bases(n))
        return False

    # =============================================================================
    # expressions
    # =============================================================================
    def eval(self, node, env):
        m = getattr(self, "e_" + type(node).__name__, None)
        if m is None:
            self.unsupported(node, "expression %s" % type(node).__name__)
        return m(node, env)

    def e_Constant(self, node, env):
        return node.value

    def e_Name(self, node, env):
        n = node.id
        if self.spec_mode and n in env.extra:
            return env.extra[n]
        try:
            return env.lookup(n)
        except KeyError:
            pass
        if self.spec_mode:
            e = env
            while e is not None:
                if n in e.extra:
                    return e.extra[n]
                e = e.parent
            if n in self.ctx.ghost:
                return self.ctx.ghost[n]
            if n in self.pack.spec_funcs:
                return Builtin("spec:" + n)
        return self.global_lookup(n, env.module)

    def e_Tuple(self, node, env):
        out = []
        for e in node.elts:
            if isinstance(e, ast.Starred):
                out.extend(self.iter_concrete(self.eval(e.value, env), e))
            else:
                out.append(self.eval(e, env))
        return tuple(out)

    def e_List(self, node, env):
        out = []
        for e in node.elts:
            if isinstance(e, ast.Starred):
                out.extend(self.iter_concrete(self.eval(e.value, env), e))
            else:
                out.append(self.eval(e, env))
        return PyList(out)

    def e_Set(self, node, env):
        vals = [self.eval(e, env) for e in node.elts]
        if all(is_concrete(v) for v in vals):
            return frozenset(vals)
        self.unsupported(node, "set display with symbolic elements")

    def e_Dict(self, node, env):
        d = {}
        for k, v in zip(node.keys, node.values):
            if k is None:
                src = self.eval(v, env)
                if isinstance(src, PyDict):
                    d.update(src.d)
                    continue
                self.unsupported(node, "** of non-concrete dict")
            kv = self.eval(k, env)
            if not is_concrete(kv):
                self.unsupported(node, "dict display with symbolic key")
            d[kv] = self.eval(v, env)
        return PyDict(d)

    def e_JoinedStr(self, node, env):
        parts = []
        for v in node.values:
            if isinstance(v, ast.Constant):
                parts.append(v.value)
            else:
                return STR.fresh(self.ctx, "fstr")
        return "".join(parts)

    def e_Lambda(self, node, env):
        return Closure(node, env, env.module, env.owner_cls)

    def e_IfExp(self, node, env):
        t = self.eval(node.test, env)
        if self.spec_mode:
            c = ops.truth(t)
            if isinstance(c, bool):
                return self.eval(node.body if c else node.orelse, env)
            a, b = self.eval(node.body, env), self.eval(node.orelse, env)
            ka, kb = kind_of(a), kind_of(b)
            if ka is not None and ka == kb:
                return Sym(ka, z3.If(c, to_term(a), to_term(b)))
            if ka in ops.NUM and kb in ops.NUM:
                return Sym(REAL if REAL in (ka, kb) else INT, z3.If(c, ops.as_num_term(a), ops.as_num_term(b)))
            self.unsupported(node, "spec if-expression of different kinds")
        if self.branch(t, "ifexp"):
            return self.eval(node.body, env)
        return self.eval(node.orelse, env)

    def e_BoolOp(self, node, env):
        if self.spec_mode:
            is_and = isinstance(node.op, ast.And)
            ts = []
            for sub in node.values:
                t = ops.truth(self.eval(sub, env))
                if isinstance(t, bool):
                    if t != is_and:
                        return t  # short-circuit: later operands are not evaluated
                    continue
                ts.append(t)
            return ops.mk_bool(ops.b_and(*ts) if is_and else ops.b_or(*ts))
        is_and = isinstance(node.op, ast.And)
        v = None
        for sub in node.values:
            v = self.eval(sub, env)
            t = self.branch(v, "and" if is_and else "or")
            if is_and and not t:
                return v
            if not is_and and t:
                return v
        return v

    def e_UnaryOp(self, node, env):
        v = self.eval(node.operand, env)
        if isinstance(node.op, ast.Not):
            t = ops.truth(v)
            return ops.mk_bool(ops.b_not(t))
        if isinstance(node.op, ast.USub):
            if is_concrete(v):
                return -v
            if kind_of(v) == REAL:
                return Sym(REAL, -v.term)
            return Sym(INT, -ops.as_int_term(v))
        if isinstance(node.op, ast.UAdd):
            return v
        self.unsupported(node, "unary op")

    def e_BinOp(self, node, env):
        a = self.eval(node.left, env)
        if isinstance(node.op, ast.Mod) and (isinstance(a, str) or kind_of(a) == STR):
            # string formatting: the result is an opaque string (never inspected by verified code)
            return STR.fresh(self.ctx, "fmt")
        b = self.eval(node.right, env)
        return self.binop(node.op, a, b, node)

    def binop(self, op, a, b, node=None):
        if isinstance(op, ast.Add) and (isinstance(a, PyList) or isinstance(b, PyList)) and not (isinstance(a, PyList) and isinstance(b, PyList)):
            h = self.pack.models.get("concat")  # pack-specific model of list concatenation with a symbolic / custom list
            if h is not None:
                r = h(self, a, b)
                if r is not None:
                    return r
        if isinstance(op, ast.Add) and isinstance(a, (PyList, SList)) and isinstance(b, (PyList, SList)):
            return self.list_concat(a, b, node)
        if isinstance(op, ast.Mult) and isinstance(a, (str, bytes)) and not is_concrete(b):
            r = kind_of(a).fresh(self.ctx, "rep")
            n = ops.as_int_term(b)
            self.ctx.assume(z3.Length(r.term) == z3.If(n < 0, z3.IntVal(0), n * len(a)))
            return r
        if isinstance(op, (ast.FloorDiv, ast.Mod, ast.Div)) and not self.spec_mode:
            kb = kind_of(b)
            if kb in ops.NUM:
                z = ops.equal(b, 0)
                if self.ctx.branch(z, "divzero"):
                    self.raise_("ZeroDivisionError")
        if isinstance(op, (ast.Sub, ast.Add)) and isinstance(b, Opaque) and b.tag == "timedelta" and kind_of(a) == REAL:
            # datetimes are modelled as real timestamps, timedeltas by their total seconds
            return ops.binop(op, a, b.attrs["secs"])
        try:
            return ops.binop(op, a, b)
        except TypeError:
            if is_concrete(a) and is_concrete(b):
                self.raise_("TypeError")  # CPython's own verdict on these two concrete operands
            raise

    def list_concat(self, a, b, node):
        if isinstance(a, PyList) and isinstance(b, PyList):
            return PyList(a.items + b.items)
        self.unsupported(node, "symbolic list concatenation")

    def e_Compare(self, node, env):
        left = self.eval(node.left, env)
        acc = True
        for op, rnode in zip(node.ops, node.comparators):
            right = self.eval(rnode, env)
            t = self.compare(op, left, right, node)
            if self.spec_mode or len(node.ops) == 1:
                acc = ops.b_and(acc, t)
            else:
                if not self.ctx.branch(t, "cmp"):
                    return False
            left = right
        return ops.mk_bool(acc)

    def compare(self, op, a, b, node=None):
        co = getattr(self.pack, "coerce_pair", None)
        if co is not None:
            a, b = co(a, b)
        if isinstance(op, (ast.In, ast.NotIn)):
            t = self.contains(b, a, node)
            return ops.b_not(t) if isinstance(op, ast.NotIn) else t
        try:
            return ops.compare(op, a, b)
        except TypeError:
            if (a is None or is_concrete(a)) and (b is None or is_concrete(b)):
                self.raise_("TypeError")
            raise

    def contains(self, container, item, node=None):
        if isinstance(container, (tuple, frozenset)):
            return ops.b_or(*[ops.equal(item, c) for c in container]) if container else False
        if isinstance(container, PyList):
            return ops.b_or(*[ops.equal(item, c) for c in container.items]) if container.items else False
        if isinstance(container, PyDict):
            return ops.b_or(*[ops.equal(item, c) for c in container.d]) if container.d else False
        if isinstance(container, SDict):
            return z3.Select(container.dom, to_term(item))
        if isinstance(container, SList):
            j = z3.Int(self.ctx.fresh_name("j"))
            return z3.Exists([j], z3.And(0 <= j, j < container.length, z3.Select(container.arr, j) == to_term(item)))
        if isinstance(container, Opaque) and container.tag in ("dict_keys",):
            return self.contains(container.attrs["d"], item, node)
        if isinstance(container, Opaque) and container.tag == "range":
            a = container.attrs
            if kind_of(item) in (INT, BOOL) and isinstance(a["step"], int) and a["step"] > 0:
                x, lo, hi = ops.as_int_term(item), ops.as_int_term(a["start"]), ops.as_int_term(a["stop"])
                return ops.b_and(x >= lo, x < hi, (x - lo) % a["step"] == 0) if a["step"] != 1 else ops.b_and(x >= lo, x < hi)
            return False
        if isinstance(container, str) and isinstance(item, str):
            return item in container
        if kind_of(container) == STR and kind_of(item) == STR:
            return z3.Contains(to_term(container), to_term(item))
        h = self.pack.models.get("contains:" + getattr(container, "tag", "?"))
        if h:
            return h(self, container, item)
        self.unsupported(node, "membership test in %r" % (container,))

    def e_Attribute(self, node, env):
        recv = self.eval(node.value, env)
        return self.getattr(recv, node.attr, node)

    def getattr(self, recv, attr, node=None, default=KeyError):
        if isinstance(recv, SObj):
            if attr in recv.fields:
                return recv.fields[attr]
            found = self.pack.find_attr(recv.cls, attr)
            if found is not None:
                kind, mod, cls, n = found
                if kind == "method":
                    if any(isinstance(d, ast.Name) and d.id == "property" for d in n.decorator_list):
                        return self.call_method(recv, attr, [], {}, node)
                    return BoundMethod(recv, attr)
                return self.eval(n, Env(mod))
            for c in self.pack.mro(recv.cls):
                if ("%s.%s" % (c, attr)) in self.pack.models:
                    return BoundMethod(recv, attr)
            if default is not KeyError:
                return default
            if self.spec_mode:
                self.unsupported(node, "spec reads undeclared field %s.%s" % (recv.cls, attr))
            hz = recv.fields.get("__hasattr__")
            if (isinstance(hz, dict) and hz.get(attr) is False) or recv.fields.get("__complete__") is True:
                # the contract declares that the object does not have this attribute (yet), or the object's attributes are exactly those
                # assigned by the real code that built it
                self.raise_("AttributeError")
            self.unsupported(node, "attribute %s of %s not declared in the contract" % (attr, recv.cls))
        if isinstance(recv, Opaque):
            if recv.tag == "super":
                return BoundMethod(recv, attr)
            if attr in recv.attrs:
                return recv.attrs[attr]
            if ("%s.%s" % (recv.tag, attr)) in self.pack.models:
                return BoundMethod(recv, attr)
            h = self.pack.models.get("getattr:%s.%s" % (recv.tag, attr))
            if h:
                return h(self, recv)
            if default is not KeyError:
                return default
            self.unsupported(node, "attribute %s of opaque %s" % (attr, recv.tag))
        if isinstance(recv, Sym) and isinstance(recv.kind, Atom):
            h = self.pack.models.get("getattr:%s.%s" % (recv.kind.name, attr))
            if h:
                return h(self, recv)
            if ("%s.%s" % (recv.kind.name, attr)) in self.pack.models:
                return BoundMethod(recv, attr)
        if isinstance(recv, Sym) and isinstance(recv.kind, Rec):
            h = self.pack.models.get("getattr:%s.%s" % (recv.kind.name, attr))
            if h:
                return h(self, recv)
            if ("%s.%s" % (recv.kind.name, attr)) in self.pack.models:
                return BoundMethod(recv, attr)
            if attr in recv.kind.fields:
                return recv.kind.fields[attr].wrap(recv.kind.field_fn(attr)(recv.term))
        if isinstance(recv, ModuleRef):
            return ModuleRef(recv.dotted + "." + attr)
        if isinstance(recv, Sentinel):
            if attr in recv.attrs:
                return recv.attrs[attr]
        if isinstance(recv, SExc):
            if attr in recv.fields:
                return recv.fields[attr]
            if attr in ("__traceback__", "__cause__", "__context__"):
                return None
            if attr == "args":
                if getattr(recv, "args_unknown", False):
                    # the constructor arguments of this exception were not evaluated (DESIGN 3.3): its args are not known
                    self.unsupported(node, "args of an exception whose constructor arguments are not modelled")
                return recv.args
        if isinstance(recv, ClassRef):
            found = self.pack.find_attr(recv.name, attr)
            if found is not None:
                kind, mod, cls, n = found
                if kind == "method":
                    clo = Closure(n, Env(mod, owner_cls=cls), mod, owner_cls=cls)
                    clo._via_class = True
                    return clo
                return self.eval(n, Env(mod))
        if isinstance(recv, (SList, PyList, PyDict, SDict)) or kind_of(recv) in (STR, BYTES) or isinstance(recv, (tuple, frozenset)):
            return BoundMethod(recv, attr)
        if getattr(recv, "pyvc_methods", False):
            return BoundMethod(recv, attr)
        if isinstance(recv, Closure) and attr == "__name__":
            return getattr(recv.node, "name", "<lambda>")
        if isinstance(recv, TypeRef) and ("%s.%s" % (recv.name, attr)) in self.pack.models:
            return ModuleRef("%s.%s" % (recv.name, attr))  # e.g. object.__repr__ with a pack model
        if default is not KeyError:
            return default
        if recv is None and not attr.startswith("__"):
            self.raise_("AttributeError")  # 'NoneType' object has no attribute ...
        self.unsupported(node, "attribute %s of %r" % (attr, recv))

    def e_Subscript(self, node, env):
        recv = self.eval(node.value, env)
        if isinstance(node.slice, ast.Slice):
            lo = self.eval(node.slice.lower, env) if node.slice.lower else None
            hi = self.eval(node.slice.upper, env) if node.slice.upper else None
            if node.slice.step is not None:
                h = self.pack.models.get("slicestep:" + getattr(recv, "tag", "?"))
                if h:
                    return h(self, recv, lo, hi, self.eval(node.slice.step, env))
                self.unsupported(node, "slice step")
            return self.slice(recv, lo, hi, node)
        idx = self.eval(node.slice, env)
        return self.getitem(recv, idx, node)

    def slice(self, recv, lo, hi, node=None):
        if isinstance(recv, PyList):
            if (lo is None or isinstance(lo, int)) and (hi is None or isinstance(hi, int)):
                return PyList(recv.items[lo:hi])
            self.unsupported(node, "symbolic slice of a concrete-shaped list")
        if isinstance(recv, SList):
            start, stop = ops.norm_index_terms(lo, hi, recv.length)
            ln = z3.If(stop - start < 0, z3.IntVal(0), stop - start)
            i = z3.Int("i!slice")
            name = self.ctx.fresh_name("slice")
            arr = z3.Const(name, recv.arr.sort())
            self.ctx.assume(z3.ForAll([i], z3.Implies(z3.And(0 <= i, i < ln), z3.Select(arr, i) == z3.Select(recv.arr, start + i))))
            out = SList(recv.elt, arr, ln)
            out.view_of = (recv, start)
            return out
        if is_concrete(recv) or kind_of(recv) in (BYTES, STR):
            return ops.seq_slice(recv, lo, hi)
        h = self.pack.models.get("slice:" + getattr(recv, "tag", "?"))
        if h:
            return h(self, recv, lo, hi)
        self.unsupported(node, "slice of %r" % (recv,))

    def getitem(self, recv, idx, node=None):
        if isinstance(recv, tuple) or isinstance(recv, PyList):
            items = recv if isinstance(recv, tuple) else recv.items
            if isinstance(idx, int) and not isinstance(idx, bool):
                if -len(items) <= idx < len(items):
                    return items[idx]
                self.raise_("IndexError")
            n = len(items)
            if self.spec_mode and n > 0:
                it = ops.as_int_term(idx)
                k = kind_of(items[0])
                if k is not None and all(kind_of(x) == k for x in items):
                    t = to_term(items[-1])
                    for p in range(n - 2, -1, -1):
                        t = z3.If(z3.Or(it == p, it == p - n), to_term(items[p]), t)
                    return Sym(k, t)
            # symbolic index into a concrete-shaped list: fork over positions
            it = ops.as_int_term(idx)
            feas = [z3.Or(it == p, it == p - n) for p in range(n)] + [z3.Or(it >= n, it < -n)]
            k = self.ctx.choose(n + 1, "idx", feasible=feas)
            if k == n:
                self.raise_("IndexError")
            return items[k]
        if isinstance(recv, SList):
            it = ops.as_int_term(idx)
            n = recv.length
            if self.spec_mode:
                return recv.get(it)  # spec indexing is mathematical (no wrap-around)
            if self.ctx.branch(z3.Or(it >= n, it < -n), "index-out-of-range"):
                self.raise_("IndexError")
            if self.ctx.branch(it < 0, "negative-index"):
                return recv.get(it + n)
            return recv.get(it)
        if isinstance(recv, PyDict):
            if is_concrete(idx):
                if idx in recv.d:
                    return recv.d[idx]
                self.raise_("KeyError")
            keys = list(recv.d)
            feas = [ops.equal(idx, k) for k in keys]
            feas = [z3.BoolVal(f) if isinstance(f, bool) else f for f in feas]
            none = z3.Not(z3.Or(*feas)) if feas else z3.BoolVal(True)
            k = self.ctx.choose(len(keys) + 1, "key", feasible=feas + [none])
            if k == len(keys):
                self.raise_("KeyError")
            return recv.d[keys[k]]
        if isinstance(recv, SDict):
            kt = to_term(idx)
            if not self.spec_mode:
                if not self.ctx.branch(z3.Select(recv.dom, kt), "key-present"):
                    self.raise_("KeyError")
            return recv.v.wrap(z3.Select(recv.arr, kt))
        if kind_of(recv) in (BYTES, STR):
            t = to_term(recv)
            it = ops.as_int_term(idx)
            n = z3.Length(t)
            if not self.spec_mode and self.ctx.branch(z3.Or(it >= n, it < -n), "index-out-of-range"):
                self.raise_("IndexError")
            pos = z3.If(it < 0, it + n, it)
            if kind_of(recv) == BYTES:
                return Sym(INT, t[pos])
            return Sym(STR, z3.SubString(t, pos, 1))
        h = self.pack.models.get("getitem:" + getattr(recv, "tag", "?"))
        if h:
            return h(self, recv, idx)
        self.unsupported(node, "subscript of %r" % (recv,))

    def e_ListComp(self, node, env):
        return self.comprehension_list(node, env)

    def e_GeneratorExp(self, node, env):
        return GenExp(node, env, self)

    def e_DictComp(self, node, env):
        if len(node.generators) != 1:
            self.unsupported(node, "nested dict comprehension")
        g = node.generators[0]
        src = self.eval(g.iter, env)
        out = {}
        for item in self.pack.for_items(self, src, node):
            e2 = Env(env.module, env, env.qualname, env.owner_cls)
            self.assign_target(g.target, item, e2)
            if all(self.branch(self.eval(c, e2), "compif") for c in g.ifs):
                k = self.eval(node.key, e2)
                if not is_concrete(k):
                    self.unsupported(node, "dict comprehension with symbolic key")
                out[k] = self.eval(node.value, e2)
        return PyDict(out)

    def comprehension_list(self, node, env):
        if len(node.generators) != 1:
            self.unsupported(node, "nested comprehension")
        g = node.generators[0]
        src = self.eval(g.iter, env)
        out = []
        for item in self.pack.for_items(self, src, node):
            e2 = Env(env.module, env, env.qualname, env.owner_cls)
            self.assign_target(g.target, item, e2)
            if all(self.branch(self.eval(c, e2), "compif") for c in g.ifs):
                out.append(self.eval(node.elt, e2))
        return PyList(out)

    def iter_concrete(self, v, node=None):
        """Items of a value whose shape is concrete."""
        if isinstance(v, (tuple, frozenset)):
            return list(v)
        if isinstance(v, PyList):
            return list(v.items)
        if isinstance(v, PyDict):
            return list(v.d)
        if isinstance(v, GenExp):
            return self.comprehension_list(v.node, v.env).items
        if isinstance(v, str):
            return list(v)
        self.unsupported(node, "iteration over %r needs a loop contract" % (v,))

    def e_Starred(self, node, env):
        self.unsupported(node, "starred expression")

    def e_NamedExpr(self, node, env):
        v = self.eval(node.value, env)
        env.assign(node.target.id, v)
        return v

    def e_Yield(self, node, env):
        v = self.eval(node.value, env) if node.value is not None else None
        return self.do_yield(v, node)

    def do_yield(self, v, node=None):
        self.ctx.yields.append(v)
        hook = getattr(self.pack, "on_yield", None)
        if hook is not None and self.depth == 0:
            hook(self, v)
        c = self.contract
        if c is not None and c.closes and self.depth == 0:
            if self.ctx.choose(2, "close@yield%d" % len(self.ctx.yields)) == 1:
                self.ctx.ghost["closed_at"] = len(self.ctx.yields)
                raise PyRaise(exc("GeneratorExit"))
        return None

    def e_YieldFrom(self, node, env):
        h = self.lookup_call_override(node.value.func, env) if isinstance(node.value, ast.Call) else None
        v = self.eval(node.value, env)
        if isinstance(v, PyList):
            for x in v.items:
                self.do_yield(x, node)
            return None
        if isinstance(v, Opaque) and v.tag == "yielded":
            # the callee's contract already appended its outputs to ctx.yields
            return v.attrs.get("value")
        self.unsupported(node, "yield from %r" % (v,))

    # =============================================================================
    # calls
    # =============================================================================
    def lookup_call_override(self, func_node, env):
        c = self.contract
        if c is None:
            return None
        text = ast.unparse(func_node)
        return c.calls.get(text)

    def eval_args(self, node, env):
        args, kwargs = [], {}
        for a in node.args:
            if isinstance(a, ast.Starred):
                args.extend(self.iter_concrete(self.eval(a.value, env), a))
            else:
                args.append(self.eval(a, env))
        for k in node.keywords:
            if k.arg is None:
                v = self.eval(k.value, env)
                if isinstance(v, PyDict):
                    for kk, vv in v.d.items():
                        kwargs[kk] = vv
                else:
                    self.unsupported(node, "** of symbolic dict in call")
            else:
                kwargs[k.arg] = self.eval(k.value, env)
        return args, kwargs

    def e_Call(self, node, env):
        text = ast.unparse(node.func)
        # spec-language primitives
        if self.spec_mode and isinstance(node.func, ast.Name):
            r = self.spec_call(node, env)
            if r is not NotImplemented:
                return r
        # logging-like calls and exception constructors: arguments are not evaluated (DESIGN 3.3)
        if text in getattr(self.pack, "raising_log_calls", ()):
            # e.g. warnings.warn in a process started with -W error: the call may raise the warning (an Exception) instead of printing it
            self.ctx.events.append(("log-call", text))
            if self.ctx.choose(2, "%s-raises@%d" % (text, node.lineno)) == 1:
                self.raise_("UserWarning")
            return None
        if text in LOG_CALLS or text in self.pack.log_calls:
            return None
        h = self.lookup_call_override(node.func, env)
        if h is not None:
            args, kwargs = self.eval_args(node, env)
            return self.apply_handler(h, args, kwargs, node, env)
        if isinstance(node.func, ast.Name) and node.func.id == "super":
            return Opaque("super", None, env=env)
        fv = self.eval(node.func, env)
        if isinstance(fv, ExcClass):
            kw = {}
            if fv.name in self.pack.exc_ctor_fields:
                args, kwargs = self.eval_args(node, env)
                return self.pack.exc_ctor_fields[fv.name](self, fv, args, kwargs)
            e = SExc(fv, ())
            e.args_unknown = bool(node.args or node.keywords)  # arguments not evaluated: e.args / str(e) are unknown, not empty
            return e
        args, kwargs = self.eval_args(node, env)
        return self.call_value(fv, args, kwargs, node, env)

    def apply_handler(self, h, args, kwargs, node, env):
        if isinstance(h, Contract):
            return self.apply_contract(h, None, args, kwargs, node)
        return h(self, args, kwargs)

    def call_value(self, fv, args, kwargs, node=None, env=None):
        if isinstance(fv, Closure):
            q = next((q for q, fn in fv.module.funcs.items() if fn is fv.node), None)
            callee = self.pack.contract_for(fv.module.relpath, q) if q else None
            cur = self.contract
            # (a recursive call of the function under verification uses its own contract: induction hypothesis)
            if callee is not None and not (cur is not None and q in cur.inline):
                return self.apply_contract(callee, None, args, kwargs, node)
            return self.call_closure(fv, args, kwargs, node)
        if isinstance(fv, BoundMethod):
            recv = fv.recv
            if isinstance(recv, SObj):
                return self.call_method(recv, fv.name, args, kwargs, node)
            if isinstance(recv, Opaque):
                if recv.tag == "super":
                    return self.call_super(recv, fv.name, args, kwargs, node)
                key = "%s.%s" % (recv.tag, fv.name)
                if key in self.pack.models:
                    return self.pack.models[key](self, recv, args, kwargs)
                self.unsupported(node, "no assumed contract for %s" % key)
            return self.pack.container_method(self, recv, fv.name, args, kwargs, node)
        if isinstance(fv, Builtin):
            h = self.pack.models.get("builtin:" + fv.name)
            if h is None:
                self.unsupported(node, "no model for builtin/global %s" % fv.name)
            return h(self, args, kwargs)
        if isinstance(fv, ModuleRef):
            h = self.pack.models.get(fv.dotted)
            if h is None and fv.dotted.split(".")[-1].endswith(("Error", "Exception")):
                return SExc(self.pack.exc_by_dotted(fv.dotted), ())  # constructor of a library exception class
            if h is None:
                self.unsupported(node, "no assumed contract for external %s" % fv.dotted)
            return h(self, args, kwargs)
        if isinstance(fv, ClassRef):
            return self.instantiate(fv, args, kwargs, node)
        if isinstance(fv, TypeRef):
            h = self.pack.models.get("builtin:" + fv.name)
            if h is None:
                self.unsupported(node, "no model for type %s" % fv.name)
            return h(self, args, kwargs)
        if isinstance(fv, AttrGetter):
            return self.getattr(args[0], fv.attr, node)
        if isinstance(fv, Opaque):
            key = "%s.__call__" % fv.tag
            if key in self.pack.models:
                return self.pack.models[key](self, fv, args, kwargs)
        self.unsupported(node, "call of %r" % (fv,))

    def call_super(self, sup, name, args, kwargs, node):
        env = sup.attrs["env"]
        h = self.pack.models.get("super." + name)
        if h is not None:
            return h(self, sup, args, kwargs)  # an external base class method, summarised by the pack
        self_obj = env.lookup("self")
        cls = env.owner_cls
        found = self.pack.find_attr(self_obj.cls, name, after=cls)
        if found is None:
            if name == "__init__":
                return None
            self.unsupported(node, "super().%s not found" % name)
        kind, mod, c, n = found
        return self.invoke(mod, c, n, self_obj, args, kwargs, node)

    def call_method(self, recv, name, args, kwargs, node=None):
        found = self.pack.find_attr(recv.cls, name)
        for c in self.pack.mro(recv.cls):
            key = "%s.%s" % (c, name)
            if key in self.pack.models and not (self.contract is not None and name in self.contract.inline):
                return self.pack.models[key](self, recv, args, kwargs)
        if found is None or found[0] != "method":
            self.unsupported(node, "method %s.%s not found" % (recv.cls, name))
        kind, mod, cls, n = found
        return self.invoke(mod, cls, n, recv, args, kwargs, node)

    def invoke(self, mod, cls, fnode, recv, args, kwargs, node):
        qual = "%s.%s" % (cls, fnode.name) if cls else fnode.name
        key = "%s.%s" % (cls, fnode.name)
        cur = self.contract
        if key in self.pack.models and not (cur is not None and fnode.name in cur.inline):
            return self.pack.models[key](self, recv, args, kwargs)
        callee = self.pack.contract_for(mod.relpath, qual)
        if callee is not None and not (cur is not None and (fnode.name in cur.inline or qual in cur.inline)):
            return self.apply_contract(callee, recv, args, kwargs, node)
        if cur is not None and (fnode.name in cur.inline or qual in cur.inline or "*" in cur.inline):
            clo = Closure(fnode, Env(mod, owner_cls=cls), mod, owner_cls=cls)
            is_static = any(ast.unparse(d) == "staticmethod" for d in fnode.decorator_list)
            full = ([recv] if recv is not None and not is_static else []) + list(args)
            return self.call_closure(clo, full, kwargs, node)
        self.unsupported(node, "call to %s: no contract and not declared inline" % qual)

    def instantiate(self, cref, args, kwargs, node):
        key = "new:" + cref.name
        if key in self.pack.models:
            return self.pack.models[key](self, args, kwargs)
        obj = SObj(cref.name, {})
        found = self.pack.find_attr(cref.name, "__init__")
        if found is not None:
            kind, mod, cls, n = found
            self.invoke(mod, cls, n, obj, args, kwargs, node)
        # built by running the real constructor: the instance attributes are exactly those it assigned (class attributes: find_attr)
        obj.fields["__complete__"] = True
        return obj

    def bind(self, fnode, args, kwargs, env, call_node=None):
        a = fnode.args
        pos = list(a.posonlyargs) + list(a.args)
        defaults = [None] * (len(pos) - len(a.defaults)) + list(a.defaults)
        args = list(args)
        kwargs = dict(kwargs)
        denv = Env(env.module, env.parent)
        for i, p in enumerate(pos):
            if i < len(args):
                env.assign(p.arg, args[i])
            elif p.arg in kwargs:
                env.assign(p.arg, kwargs.pop(p.arg))
            elif defaults[i] is not None:
                env.assign(p.arg, self.eval(defaults[i], denv))
            else:
                self.unsupported(call_node, "missing argument %s" % p.arg)
        if a.vararg:
            env.assign(a.vararg.arg, tuple(args[len(pos):]))
        elif len(args) > len(pos):
            self.unsupported(call_node, "too many positional arguments")
        for p, d in zip(a.kwonlyargs, a.kw_defaults):
            if p.arg in kwargs:
                env.assign(p.arg, kwargs.pop(p.arg))
            elif d is not None:
                env.assign(p.arg, self.eval(d, denv))
            else:
                self.unsupported(call_node, "missing kw-only argument %s" % p.arg)
        if a.kwarg:
            env.assign(a.kwarg.arg, PyDict(kwargs))
        elif kwargs:
            self.unsupported(call_node, "unexpected keyword arguments %s" % list(kwargs))

    def call_closure(self, clo, args, kwargs, node=None):
        if self.depth > 12:
            self.unsupported(node, "inlining depth exceeded")
        fnode = clo.node
        decos = [ast.unparse(d) for d in getattr(fnode, "decorator_list", [])]
        caching = False
        for d in decos:
            base = d.split("(")[0]
            if base in TRANSPARENT_DECORATORS or base.endswith(".setter") or base.endswith(".getter"):
                continue
            if base in CACHING_DECORATORS:
                caching = True
                continue
            # a decorator replaces the function by something else: its body is not what a call executes
            self.unsupported(node, "decorator @%s on %s is not modelled" % (d, getattr(fnode, "name", "?")))
        if caching:
            return self.call_cached(clo, args, kwargs, node)
        return self._call_closure_body(clo, args, kwargs, node, decos)

    def call_cached(self, clo, args, kwargs, node):
        """functools.lru_cache / cache: a call may return what an EARLIER call with equal arguments computed.  If the body
        reads module state that is not a constant, that earlier value may differ from what the body computes now."""
        fnode = clo.node
        cur = self._call_closure_body(clo, args, kwargs, node, [])
        local = {a.arg for a in fnode.args.args + fnode.args.kwonlyargs + fnode.args.posonlyargs}
        for n in ast.walk(fnode):
            if isinstance(n, ast.Name) and isinstance(n.ctx, ast.Store):
                local.add(n.id)
        reads = sorted({n.id for n in ast.walk(fnode) if isinstance(n, ast.Name) and isinstance(n.ctx, ast.Load) and n.id not in local
                        and n.id not in BUILTIN_NAMES and self._may_be_mutable_global(clo.module, n.id)})
        # the cache is keyed by the ARGUMENTS (identity / equality at the time of the call); the body computes from their current STATE:
        # an argument that is a mutable object (a function whose __defaults__ / __code__ can be reassigned, an instance, a list ...) may
        # have changed since the call whose result is handed back
        mutable_args = [a for a in list(args) + list(kwargs.values()) if isinstance(a, (Opaque, SObj, PyList, PyDict, SList, SDict))]
        if mutable_args:
            reads = reads + ["<state of a mutable argument>"]
        if not reads:
            return cur
        if self.ctx.choose(2, "cached-call:%s" % fnode.name) == 0:
            return cur
        self.ctx.events.append(("stale-cached-result", fnode.name, tuple(reads)))
        if isinstance(cur, bool) or (isinstance(cur, Sym) and cur.kind is BOOL):
            return BOOL.fresh(self.ctx, "stale_" + fnode.name)
        if isinstance(cur, int) or (isinstance(cur, Sym) and cur.kind is INT):
            return INT.fresh(self.ctx, "stale_" + fnode.name)
        if isinstance(cur, Sym):
            return cur.kind.fresh(self.ctx, "stale_" + fnode.name)
        self.unsupported(node, "cached function %s reads %s: a stale result of this type is not modelled" % (fnode.name, reads))

    def _is_caching(self, fnode):
        return any(ast.unparse(d).split("(")[0] in CACHING_DECORATORS for d in getattr(fnode, "decorator_list", []))

    def _impure(self, fnode, module):
        """The body calls into an imported module / opens files (reads the outside world) or reads module state that is not a constant."""
        local = {a.arg for a in fnode.args.args + fnode.args.kwonlyargs + fnode.args.posonlyargs}
        for n in ast.walk(fnode):
            if isinstance(n, ast.Name) and isinstance(n.ctx, ast.Store):
                local.add(n.id)
        mods = set()
        for st in getattr(module, "tree", ast.Module(body=[], type_ignores=[])).body:
            if isinstance(st, ast.Import):
                mods.update((al.asname or al.name.split(".")[0]) for al in st.names)
        for n in ast.walk(fnode):
            if isinstance(n, ast.Call):
                f = n.func
                if isinstance(f, ast.Name) and f.id == "open":
                    return True
                base = f
                while isinstance(base, ast.Attribute):
                    base = base.value
                if isinstance(f, ast.Attribute) and isinstance(base, ast.Name) and base.id in mods and base.id not in local:
                    return True
            if isinstance(n, ast.Name) and isinstance(n.ctx, ast.Load) and n.id not in local and n.id not in BUILTIN_NAMES and n.id not in mods \
                    and self._may_be_mutable_global(module, n.id):
                return True
        return False

    def _may_be_mutable_global(self, module, name, depth=0):
        """False for module-level functions, classes, imported modules and immutable constants (imports from sibling modules are
        followed); True when the name is bound to anything else (tables, registries, objects) or cannot be resolved."""
        tree = getattr(module, "tree", None)
        if tree is None or depth > 3:
            return True
        for st in tree.body:
            if isinstance(st, (ast.FunctionDef, ast.AsyncFunctionDef, ast.ClassDef)) and st.name == name:
                return False
            if isinstance(st, ast.Assign) and any(isinstance(t, ast.Name) and t.id == name for t in st.targets):
                return not isinstance(st.value, ast.Constant)
            if isinstance(st, ast.Import) and any((al.asname or al.name.split(".")[0]) == name for al in st.names):
                return False
            if isinstance(st, ast.ImportFrom):
                for al in st.names:
                    if (al.asname or al.name) == name:
                        if st.level >= 1 and st.module:
                            import os as _os
                            rel = _os.path.normpath(_os.path.join(_os.path.dirname(module.relpath), *([".."] * (st.level - 1)), st.module.replace(".", "/") + ".py"))
                            try:
                                return self._may_be_mutable_global(SourceModule.get(rel), al.name, depth + 1)
                            except OSError:
                                return True
                        return not (al.name[:1].isupper() and not al.name.isupper()) and not al.name.islower()
        return True

    def _call_closure_body(self, clo, args, kwargs, node, decos):
        fnode = clo.node
        if "staticmethod" in decos and clo.owner_cls and args and isinstance(args[0], SObj) and getattr(clo, "_bound", False):
            args = args[1:]
        if "classmethod" in decos and clo.owner_cls:
            if getattr(clo, "_via_class", False):
                args = [ClassRef(clo.owner_cls)] + list(args)   # Cls.method(...): the class is the first argument
            elif args and isinstance(args[0], SObj) and getattr(clo, "_bound", False):
                args = [ClassRef(args[0].cls)] + list(args[1:])
        env = Env(clo.module, clo.env, getattr(fnode, "name", "<lambda>"), clo.owner_cls)
        self.bind(fnode, args, kwargs, env, node)
        if isinstance(fnode, ast.Lambda):
            return self.eval(fnode.body, env)
        self.depth += 1
        try:
            self.exec_block(fnode.body, env)
        except Ret as r:
            return r.value
        finally:
            self.depth -= 1
        return None

    # =============================================================================
    # modular call: apply a contract at a call site
    # =============================================================================
    def apply_contract(self, c, recv, args, kwargs, node):
        mod = SourceModule.get(c.file)
        fnode = mod.func(c.qualname)
        env = Env(mod, None, c.qualname, c.cls)
        is_static = any(ast.unparse(d) == "staticmethod" for d in fnode.decorator_list)
        full = ([recv] if recv is not None and not is_static else []) + list(args)
        self.bind(fnode, full, kwargs, env, node)
        site = "call:%s" % c.qualname
        self.spec_mode += 1
        try:
            for i, r in enumerate(c.requires):
                self.ctx.check("%s/requires[%d]" % (site, i), ops.truth(self.spec(r, env)), detail=r)
        finally:
            self.spec_mode -= 1
        env.old = self.snapshot_env(env)
        for lv in c.modifies:
            self.havoc_lvalue(lv, env, c)
        outcomes = [("return", None)] + [("raise", e) for e in c.exsures]
        k = self.ctx.choose(len(outcomes), "outcome:%s" % c.name)
        kind, ename = outcomes[k]
        if c.at_exit is not None:
            c.at_exit(self, env, kind)
        self.spec_mode += 1
        try:
            if kind == "return":
                result = None
                if c.returns is not None:
                    result = c.returns.fresh(self.ctx, c.name + "#ret") if isinstance(c.returns, Kind) else c.returns(self, env)
                if isinstance(result, Alternatives):
                    # keep the candidates that the callee's postcondition does not refute outright, then fork
                    keep = []
                    for cand in result.options:
                        env.extra["result"] = cand
                        ts = [ops.truth(self.spec(s, env)) for s in c.ensures.values()]
                        if not any(t is False for t in ts):
                            keep.append(cand)
                    if not keep:
                        raise Infeasible()
                    result = keep[self.ctx.choose(len(keep), "result:%s" % c.name)]
                env.extra["result"] = result
                self.ctx.ghost["ret_" + c.name] = result
                stale = False
                if self._is_caching(fnode) and self._impure(fnode, mod) and self.ctx.choose(2, "cached-call:%s" % c.name) == 1:
                    # functools.lru_cache / cache on a function that looks at the outside world: this call may return what an EARLIER
                    # call computed, so its postcondition speaks about an earlier state, not about this one
                    stale = True
                    self.ctx.events.append(("stale-cached-result", c.name))
                if not stale:
                    for nm, s in c.ensures.items():
                        self.ctx.assume(ops.truth(self.spec(s, env)))
            else:
                for nm, s in c.exsures[ename].items():
                    self.ctx.assume(ops.truth(self.spec(s, env)))
        finally:
            self.spec_mode -= 1
        if not self.ctx.replaying:
            self.ctx.run.called.add("%s/%s" % (c.qualname, kind if kind == "return" else ename))
        if self.ctx._sat(z3.BoolVal(True)) == z3.unsat:
            raise Infeasible()
        self.ctx.cover("call:%s/%s" % (c.qualname, kind if kind == "return" else ename))
        if kind == "raise":
            ecls = self.pack.exc_by_dotted(ename) if "." in ename else self.global_lookup(ename, mod)
            e = SExc(ecls, ())
            if ename in c.exc_kinds:
                c.exc_kinds[ename](self, e, env)
            raise PyRaise(e)
        return result

    def havoc_lvalue(self, lv, env, c=None):
        if lv.startswith("ghost:"):
            g = lv[6:]
            self.ctx.ghost[g] = self.fresh_like(self.ctx.ghost[g], g, None)
            return
        node = ast.parse(lv, mode="eval").body
        if isinstance(node, ast.Name):
            cur = env.lookup(node.id)
            env.assign(node.id, self.fresh_like(cur, node.id, None))
            return
        if isinstance(node, ast.Attribute):
            obj = self.eval(node.value, env)
            if isinstance(obj, SObj):
                cur = obj.fields.get(node.attr)
                decl = self.pack.field_kind(obj.cls, node.attr)
                obj.fields[node.attr] = self.fresh_like(cur, "%s.%s" % (obj.cls, node.attr), decl)
                return
            if isinstance(obj, Opaque):
                cur = obj.attrs.get(node.attr)
                obj.attrs[node.attr] = self.fresh_like(cur, "%s.%s" % (obj.tag, node.attr), None)
                return
        raise Unsupported("cannot havoc %s" % lv)

    def fresh_like(self, cur, hint, decl=None):
        if cur is not None and hasattr(cur, "pyvc_havoc"):
            return cur.pyvc_havoc(self.ctx, hint)  # custom containers keep what a loop cannot change
        if decl is not None:
            return decl.fresh(self.ctx, hint) if isinstance(decl, Kind) else decl
        if isinstance(cur, Sym):
            return cur.kind.fresh(self.ctx, hint)
        if isinstance(cur, bool):
            return BOOL.fresh(self.ctx, hint)
        if isinstance(cur, int):
            return INT.fresh(self.ctx, hint)
        if isinstance(cur, float):
            return REAL.fresh(self.ctx, hint)
        if isinstance(cur, bytes):
            return BYTES.fresh(self.ctx, hint)
        if isinstance(cur, str):
            return STR.fresh(self.ctx, hint)
        if isinstance(cur, SList):
            return ListOf(cur.elt).fresh(self.ctx, hint)
        if isinstance(cur, SDict):
            return DictOf(cur.k, cur.v).fresh(self.ctx, hint)
        raise Unsupported("cannot havoc %s: kind unknown (declare it in the contract)" % hint)

    # =============================================================================
    # snapshots for old(...)
    # =============================================================================
    def snapshot_env(self, env):
        memo = {}
        snap = Env(env.module, None, env.qualname, env.owner_cls)
        e = env
        seen = set()
        while e is not None:
            for k, v in e.vars.items():
                if k not in seen:
                    seen.add(k)
                    snap.vars[k] = self.snapshot(v, memo)
            e = e.parent
        snap.extra = dict(env.extra)
        # ghost state at entry (immutable values; containers are cloned)
        for g, v in self.ctx.ghost.items():
            if isinstance(g, str) and g not in snap.extra and not g.startswith(("global:", "id:", "sorted:")):
                snap.extra[g] = self.snapshot(v, memo)
        return snap

    def snapshot(self, v, memo):
        if id(v) in memo:
            return memo[id(v)]
        if isinstance(v, SObj):
            o = SObj(v.cls, {}, uid=v.uid)
            memo[id(v)] = o
            for k, x in v.fields.items():
                o.fields[k] = self.snapshot(x, memo)
            return o
        if isinstance(v, Opaque):
            o = Opaque(v.tag, v.name)
            o.uid = v.uid
            memo[id(v)] = o
            for k, x in v.attrs.items():
                o.attrs[k] = self.snapshot(x, memo) if not isinstance(x, Env) else x
            return o
        if isinstance(v, (SList, SDict)):
            o = v.clone()
            memo[id(v)] = o
            return o
        if isinstance(v, PyList):
            o = PyList([self.snapshot(x, memo) for x in v.items])
            memo[id(v)] = o
            return o
        if isinstance(v, PyDict):
            o = PyDict({k: self.snapshot(x, memo) for k, x in v.d.items()})
            memo[id(v)] = o
            return o
        if isinstance(v, tuple):
            return tuple(self.snapshot(x, memo) for x in v)
        return v

    # =============================================================================
    # spec language
    # =============================================================================
    def spec(self, text, env):
        """Evaluate a spec string in spec mode (pure: builds terms, never forks on booleans)."""
        node = self.pack.parse_spec(text)
        self.spec_mode += 1
        try:
            return self.eval(node, env)
        finally:
            self.spec_mode -= 1

    def spec_call(self, node, env):
        f = node.func.id
        if f == "old":
            e = env
            while e is not None and e.old is None:
                e = e.parent
            if e is None:
                self.unsupported(node, "old() without a pre-state")
            snap = e.old
            snap.extra.update({k: v for k, v in env.extra.items() if k not in snap.extra})
            # bound variables of enclosing quantifiers stay visible
            tmp = Env(snap.module, snap, snap.qualname, snap.owner_cls)
            ee = env
            while ee is not None:
                for k, v in ee.vars.items():
                    if k.startswith("?"):
                        tmp.vars[k[1:]] = v
                ee = ee.parent
            return self.eval(node.args[0], tmp)
        if f in ("forall", "exists"):
            var = node.args[0].id
            lo = self.eval(node.args[1], env)
            hi = self.eval(node.args[2], env)
            if isinstance(lo, int) and isinstance(hi, int) and lo >= hi:
                return f == "forall"
            bv = z3.Int(self.ctx.fresh_name("q_" + var))
            e2 = Env(env.module, env, env.qualname, env.owner_cls)
            e2.vars[var] = Sym(INT, bv)
            e2.vars["?" + var] = Sym(INT, bv)
            e2.old = None
            body = ops.truth(self.eval(node.args[3], e2))
            if isinstance(body, bool):
                body = z3.BoolVal(body)
            rng = z3.And(ops.as_int_term(lo) <= bv, bv < ops.as_int_term(hi))
            if f == "forall":
                return ops.mk_bool(z3.ForAll([bv], z3.Implies(rng, body)))
            return ops.mk_bool(z3.Exists([bv], z3.And(rng, body)))
        if f == "implies":
            a = ops.truth(self.eval(node.args[0], env))
            if a is False:
                return True
            b = ops.truth(self.eval(node.args[1], env))
            return ops.mk_bool(ops.b_implies(a, b))
        if f == "iff":
            a = ops.truth(self.eval(node.args[0], env))
            b = ops.truth(self.eval(node.args[1], env))
            a = z3.BoolVal(a) if isinstance(a, bool) else a
            b = z3.BoolVal(b) if isinstance(b, bool) else b
            return ops.mk_bool(a == b)
        if f == "ite":
            c = ops.truth(self.eval(node.args[0], env))
            if isinstance(c, bool):
                return self.eval(node.args[1] if c else node.args[2], env)
            a, b = self.eval(node.args[1], env), self.eval(node.args[2], env)
            k = kind_of(a)
            if k in ops.NUM and kind_of(b) in ops.NUM and not (k == BOOL and kind_of(b) == BOOL):
                k2 = REAL if REAL in (k, kind_of(b)) else INT
                return Sym(k2, z3.If(c, ops.as_num_term(a), ops.as_num_term(b)))
            return Sym(k, z3.If(c, to_term(a), to_term(b)))
        if f in self.pack.spec_funcs:
            args = [self.eval(a, env) for a in node.args]
            return self.pack.spec_funcs[f](self, *args)
        return NotImplemented

    # =============================================================================
    # statements
    # =============================================================================
    def exec_block(self, stmts, env):
        for s in stmts:
            self.exec(s, env)

    def exec(self, node, env):
        m = getattr(self, "s_" + type(node).__name__, None)
        if m is None:
            self.unsupported(node, "statement %s" % type(node).__name__)
        return m(node, env)

    def s_Pass(self, node, env):
        pass

    def s_Expr(self, node, env):
        if isinstance(node.value, ast.Constant):
            return
        self.eval(node.value, env)

    def s_Import(self, node, env):
        for a in node.names:
            h = self.pack.models.get("import:" + a.name)
            if h is not None:
                env.assign(a.asname or a.name.split(".")[0], h(self))  # may raise ImportError in the model
                continue
            env.assign(a.asname or a.name.split(".")[0], ModuleRef(a.name if a.asname else a.name.split(".")[0]))

    def s_ImportFrom(self, node, env):
        base = ("." * node.level) + (node.module or "")
        for a in node.names:
            target = base + "." + a.name
            val = ModuleRef(target)
            h = self.pack.models.get("import:" + target)
            if h is not None:
                val = h(self)  # the pack's stand-in for this name takes precedence over reading the other module
            elif node.level:
                r = self.pack.resolve_import(env.module, target)
                if r is not None and r[1] is not None:
                    val = self.global_lookup(r[1], r[0])
            env.assign(a.asname or a.name, val)

    def s_Global(self, node, env):
        env.globals_decl.update(node.names)

    def s_Nonlocal(self, node, env):
        pass

    def s_FunctionDef(self, node, env):
        env.assign(node.name, Closure(node, env, env.module, env.owner_cls))

    def s_ClassDef(self, node, env):
        h = self.pack.models.get("classdef:" + node.name)
        if h is None:
            self.unsupported(node, "nested class definition")
        env.assign(node.name, h(self, node, env))

    def s_Return(self, node, env):
        raise Ret(self.eval(node.value, env) if node.value is not None else None)

    def s_Break(self, node, env):
        raise Brk()

    def s_Continue(self, node, env):
        raise Cont()

    def s_Assert(self, node, env):
        if not self.branch(self.eval(node.test, env), "assert"):
            self.raise_("AssertionError")

    def s_Delete(self, node, env):
        for t in node.targets:
            if isinstance(t, ast.Name):
                env.vars.pop(t.id, None)
            elif isinstance(t, ast.Attribute):
                obj = self.eval(t.value, env)
                if isinstance(obj, SObj):
                    if t.attr not in obj.fields:
                        self.raise_("AttributeError")
                    del obj.fields[t.attr]
                    # from now on the attribute is KNOWN to be absent (hasattr / getattr-with-default are strict about undeclared names)
                    obj.fields["__hasattr__"] = dict(obj.fields.get("__hasattr__") or {}, **{t.attr: False})
                else:
                    self.unsupported(node, "del attribute of %r" % (obj,))
            elif isinstance(t, ast.Subscript):
                obj = self.eval(t.value, env)
                idx = self.eval(t.slice, env)
                self.pack.container_method(self, obj, "__delitem__", [idx], {}, node)
            else:
                self.unsupported(node, "del target")

    def s_Assign(self, node, env):
        v = self.eval(node.value, env)
        for t in node.targets:
            self.assign_target(t, v, env)

    def s_AnnAssign(self, node, env):
        if node.value is not None:
            self.assign_target(node.target, self.eval(node.value, env), env)

    def s_AugAssign(self, node, env):
        if isinstance(node.target, ast.Name):
            cur = self.e_Name(ast.Name(id=node.target.id, ctx=ast.Load()), env)
        elif isinstance(node.target, ast.Attribute):
            obj = self.eval(node.target.value, env)
            cur = self.getattr(obj, node.target.attr, node)
        elif isinstance(node.target, ast.Subscript):
            obj = self.eval(node.target.value, env)
            idx = self.eval(node.target.slice, env)
            cur = self.getitem(obj, idx, node)
        else:
            self.unsupported(node, "augmented assignment target")
        rhs = self.eval(node.value, env)
        if isinstance(cur, PyList) and isinstance(node.op, ast.Add):
            cur.items.extend(self.iter_concrete(rhs, node))
            return
        new = self.binop(node.op, cur, rhs, node)
        if isinstance(node.target, ast.Name):
            self.assign_name(node.target.id, new, env)
        elif isinstance(node.target, ast.Attribute):
            self.setattr(obj, node.target.attr, new, node)
        else:
            self.pack.container_method(self, obj, "__setitem__", [idx, new], {}, node)

    def assign_name(self, name, v, env):
        if name in env.globals_decl:
            self.pack.globals[name] = v
            return
        env.assign(name, v)

    def setattr(self, obj, attr, v, node=None):
        if isinstance(obj, SObj):
            hook = self.pack.write_hooks.get((obj.cls, attr)) or self.pack.write_hooks.get(("*", attr))
            if hook:
                hook(self, obj, attr, v)
            obj.fields[attr] = v
            return
        if isinstance(obj, (Opaque,)):
            hook = self.pack.write_hooks.get((obj.tag, attr))
            if hook:
                hook(self, obj, attr, v)
            obj.attrs[attr] = v
            return
        if isinstance(obj, SExc):
            obj.fields[attr] = v
            return
        if isinstance(obj, Sym) and isinstance(obj.kind, Atom):
            hook = self.pack.write_hooks.get((obj.kind.name, attr))
            if hook:
                hook(self, obj, attr, v)
                return
        self.unsupported(node, "attribute store on %r" % (obj,))

    def assign_target(self, t, v, env):
        if isinstance(t, ast.Name):
            self.assign_name(t.id, v, env)
        elif isinstance(t, ast.Attribute):
            self.setattr(self.eval(t.value, env), t.attr, v, t)
        elif isinstance(t, (ast.Tuple, ast.List)):
            if isinstance(v, (tuple, PyList)):
                items = list(v) if isinstance(v, tuple) else v.items
                stars = [k for k, e in enumerate(t.elts) if isinstance(e, ast.Starred)]
                if len(stars) > 1:
                    self.unsupported(t, "two starred targets")
                if stars:
                    k = stars[0]
                    after = len(t.elts) - k - 1
                    if len(items) < len(t.elts) - 1:
                        self.raise_("ValueError")
                    for sub, x in zip(t.elts[:k], items[:k]):
                        self.assign_target(sub, x, env)
                    self.assign_target(t.elts[k].value, PyList(items[k:len(items) - after]), env)
                    for sub, x in zip(t.elts[k + 1:], items[len(items) - after:]):
                        self.assign_target(sub, x, env)
                    return
                if len(items) != len(t.elts):
                    self.raise_("ValueError")
                for sub, x in zip(t.elts, items):
                    self.assign_target(sub, x, env)
            else:
                h = self.pack.models.get("unpack:" + getattr(v, "tag", type(v).__name__))
                if h is None:
                    self.unsupported(t, "unpacking %r" % (v,))
                for sub, x in zip(t.elts, h(self, v, len(t.elts))):
                    self.assign_target(sub, x, env)
        elif isinstance(t, ast.Subscript):
            obj = self.eval(t.value, env)
            if isinstance(t.slice, ast.Slice):
                idx = ("slice", self.eval(t.slice.lower, env) if t.slice.lower else None, self.eval(t.slice.upper, env) if t.slice.upper else None)
            else:
                idx = self.eval(t.slice, env)
            self.pack.container_method(self, obj, "__setitem__", [idx, v], {}, t)
        else:
            self.unsupported(t, "assignment target")

    def s_If(self, node, env):
        if self.branch(self.eval(node.test, env), "if@%d" % node.lineno):
            self.exec_block(node.body, env)
        else:
            self.exec_block(node.orelse, env)

    def s_Raise(self, node, env):
        if node.exc is None:
            if not self.ctx.exc_stack:
                self.raise_("RuntimeError")
            raise PyRaise(self.ctx.exc_stack[-1])
        v = self.eval(node.exc, env)
        if isinstance(v, ExcClass):
            v = SExc(v, ())
        if not isinstance(v, SExc):
            h = self.pack.models.get("raise:" + getattr(v, "tag", "?"))
            if h:
                v = h(self, v)
            else:
                self.unsupported(node, "raise of %r" % (v,))
        # implicit and explicit exception chaining (PEP 3134)
        if self.ctx.exc_stack and "__context__" not in v.fields and v is not self.ctx.exc_stack[-1]:
            v.fields["__context__"] = self.ctx.exc_stack[-1]
        if node.cause is not None:
            cause = self.eval(node.cause, env)
            if isinstance(cause, ExcClass):
                cause = SExc(cause, ())
            v.fields["__cause__"] = cause
        raise PyRaise(v)

    def exc_matches(self, e, type_node, env):
        if type_node is None:
            return True
        tv = self.eval(type_node, env)
        classes = tv if isinstance(tv, tuple) else (tv,)
        for c in classes:
            if isinstance(c, ModuleRef):
                c = self.pack.exc_by_dotted(c.dotted)
            if not isinstance(c, ExcClass):
                self.unsupported(type_node, "except clause with %r" % (c,))
            if e.cls.is_sub(c):
                return True
        return False

    def s_Try(self, node, env):
        try:
            try:
                self.exec_block(node.body, env)
            except PyRaise as pr:
                e = pr.exc
                for h in node.handlers:
                    if self.exc_matches(e, h.type, env):
                        if h.name:
                            env.assign(h.name, e)
                        self.ctx.exc_stack.append(e)
                        try:
                            self.exec_block(h.body, env)
                        finally:
                            self.ctx.exc_stack.pop()
                        break
                else:
                    raise
            else:
                self.exec_block(node.orelse, env)
        finally:
            if node.finalbody:
                # control-flow signals (Ret/Brk/Cont/PyRaise) pass through the finally block;
                # engine-level aborts (Infeasible/PathEnd/Unsupported) must not run it
                import sys
                et = sys.exc_info()[0]
                if et is None or issubclass(et, (PyRaise, Ret, Brk, Cont)):
                    self.exec_block(node.finalbody, env)

    def s_With(self, node, env):
        self._with_items(node, node.items, env)

    def _with_items(self, node, items, env):
        if not items:
            return self.exec_block(node.body, env)
        item = items[0]
        cm = self.eval(item.context_expr, env)
        entered = self.pack.cm_enter(self, cm, node)
        if item.optional_vars is not None:
            self.assign_target(item.optional_vars, entered, env)
        try:
            self._with_items(node, items[1:], env)
        except PyRaise as pr:
            suppress = self.pack.cm_exit(self, cm, pr.exc, node)
            if not suppress:
                raise
        except (Ret, Brk, Cont):
            self.pack.cm_exit(self, cm, None, node)
            raise
        else:
            self.pack.cm_exit(self, cm, None, node)

    # ---- loops ------------------------------------------------------------------
    def loop_contract(self, node, env):
        c = self.contract
        if c is None or self.depth > 0 and False:
            return None, None
        fq = env.qualname
        return self.pack.loop_contract(self, node, env)

    def assigned_in(self, stmts):
        names, attrs = set(), set()

        def tgt(t):
            if isinstance(t, ast.Name):
                names.add(t.id)
            elif isinstance(t, ast.Attribute) and isinstance(t.value, ast.Name):
                attrs.add((t.value.id, t.attr))
            elif isinstance(t, (ast.Tuple, ast.List)):
                for e in t.elts:
                    tgt(e)
            elif isinstance(t, ast.Subscript):
                tgt(t.value)

        for s in stmts:
            for n in ast.walk(s):
                if isinstance(n, (ast.FunctionDef, ast.Lambda)):
                    continue
                if isinstance(n, ast.Assign):
                    for t in n.targets:
                        tgt(t)
                elif isinstance(n, (ast.AugAssign, ast.AnnAssign)):
                    tgt(n.target)
                elif isinstance(n, ast.For):
                    tgt(n.target)
                elif isinstance(n, ast.With):
                    for it in n.items:
                        if it.optional_vars is not None:
                            tgt(it.optional_vars)
                elif isinstance(n, ast.ExceptHandler) and n.name:
                    names.add(n.name)
                elif isinstance(n, ast.NamedExpr):
                    tgt(n.target)
                elif isinstance(n, ast.Call) and isinstance(n.func, ast.Attribute) and n.func.attr in (
                        "append", "extend", "pop", "add", "remove", "update", "clear", "sort", "insert", "popleft", "discard", "put", "get"):
                    tgt(n.func.value)
        return names, attrs

    def havoc_loop(self, node, env, lc):
        names, attrs = self.assigned_in(node.body + (node.orelse or []))
        for n in sorted(names):
            if env.has(n):
                cur = env.lookup(n)
                decl = lc.kinds.get(n)
                if decl is None and not isinstance(cur, (Sym, SList, SDict, bool, int, float, str, bytes)):
                    if cur is None or isinstance(cur, (PyList, PyDict, tuple)):
                        raise Unsupported("loop '%s' modifies %s whose kind is not declared" % (lc.header, n))
                    continue
                env.assign(n, self.fresh_like(cur, n, decl))
            elif n in lc.kinds:
                env.assign(n, lc.kinds[n].fresh(self.ctx, n))
        for (o, a) in sorted(attrs):
            if env.has(o):
                obj = env.lookup(o)
                if isinstance(obj, SObj) and a in obj.fields:
                    decl = lc.kinds.get("%s.%s" % (o, a)) or self.pack.field_kind(obj.cls, a)
                    obj.fields[a] = self.fresh_like(obj.fields[a], "%s.%s" % (o, a), decl)
        for lv in lc.havoc:
            self.havoc_lvalue(lv, env)

    def check_invariants(self, lc, env, when, lname):
        for nm, s in lc.invariant.items():
            self.ctx.check("%s/%s.%s" % (lname, when, nm), ops.truth(self.spec(s, env)), detail=s)

    def assume_invariants(self, lc, env):
        for nm, s in lc.invariant.items():
            self.ctx.assume(ops.truth(self.spec(s, env)))

    def s_While(self, node, env):
        lc, lname = self.pack.loop_contract(self, node, env)
        if lc is None:
            # no contract: only concrete-bounded loops may be unrolled
            n = 0
            K = getattr(self.ctx.run, "bounded_unroll", 0)
            while True:
                t = ops.truth(self.eval(node.test, env))
                if not isinstance(t, bool) and K:
                    if n >= K:
                        if self.ctx.branch(t, "unroll-bound@%d" % node.lineno):
                            raise PathEnd()
                        break
                    t = self.ctx.branch(t, "unroll@%d#%d" % (node.lineno, n))
                if not isinstance(t, bool):
                    self.unsupported(node, "while loop without a loop contract")
                if not t:
                    break
                n += 1
                if n > 64:
                    self.unsupported(node, "unrolling bound exceeded")
                try:
                    self.exec_block(node.body, env)
                except Brk:
                    return
                except Cont:
                    continue
            self.exec_block(node.orelse, env)
            return
        self.check_invariants(lc, env, "entry", lname)
        self.havoc_loop(node, env, lc)
        self.assume_invariants(lc, env)
        var0 = None
        if lc.decreases:
            var0 = self.spec(lc.decreases, env)
        if self.branch(self.eval(node.test, env), "while@%d" % node.lineno):
            self.ctx.cover(lname + "/body")
            try:
                self.exec_block(node.body, env)
            except Brk:
                return
            except Cont:
                pass
            self.check_invariants(lc, env, "preserved", lname)
            if lc.decreases:
                var1 = self.spec(lc.decreases, env)
                self.check_decreases(lname, var0, var1, lc.decreases)
            raise PathEnd()
        self.ctx.cover(lname + "/exit")
        self.exec_block(node.orelse, env)

    def _for_range_symbolic_step(self, node, env, it, lc, lname):
        """for x in range(start, stop, step) with a symbolic positive step: the invariant speaks about `_next`,
        the value the loop variable takes next (no multiplication is introduced)."""
        a = it.attrs
        step = ops.as_int_term(a["step"])
        stop = ops.as_int_term(a["stop"])
        if self.ctx.branch(step <= 0, "range-step<=0"):
            self.unsupported(node, "range with non-positive symbolic step")
        env.assign("_next", a["start"])
        self.check_invariants(lc, env, "entry", lname)
        self.havoc_loop(node, env, lc)
        nxt = z3.Int(self.ctx.fresh_name("_next"))
        self.ctx.assume(nxt >= ops.as_int_term(a["start"]))
        env.assign("_next", Sym(INT, nxt))
        self.assume_invariants(lc, env)
        if self.ctx.branch(nxt < stop, "for@%d" % node.lineno):
            self.ctx.cover(lname + "/body")
            self.assign_target(node.target, Sym(INT, nxt), env)
            try:
                self.exec_block(node.body, env)
            except Brk:
                return
            except Cont:
                pass
            env.assign("_next", Sym(INT, nxt + step))
            self.check_invariants(lc, env, "preserved", lname)
            raise PathEnd()
        self.ctx.cover(lname + "/exit")
        self.exec_block(node.orelse, env)

    def check_decreases(self, lname, v0, v1, text):
        if isinstance(v0, tuple):
            # lexicographic
            conds = []
            eq_prefix = True
            for a, b in zip(v0, v1):
                a, b = ops.as_int_term(a), ops.as_int_term(b)
                conds.append(ops.b_and(eq_prefix, z3.And(b < a, a >= 0)))
                eq_prefix = ops.b_and(eq_prefix, a == b)
            goal = ops.b_or(*conds)
        else:
            a, b = ops.as_int_term(v0), ops.as_int_term(v1)
            goal = z3.And(a >= 0, b < a)
        self.ctx.check("%s/decreases" % lname, goal, detail=text)

    def s_For(self, node, env):
        lc, lname = self.pack.loop_contract(self, node, env)
        it = self.eval(node.iter, env)
        K = getattr(self.ctx.run, "bounded_unroll", 0)
        if lc is None and K and (isinstance(it, SList) or (isinstance(it, Opaque) and (it.tag in ("range", "enumerate") or "seq" in it.attrs))):
            try:
                n, getter = self.pack.for_sequence(self, it, node)
            except Unsupported:
                n = None
            if n is not None:
                for k in range(K):
                    if not self.ctx.branch(z3.IntVal(k) < n, "unroll@%d#%d" % (node.lineno, k)):
                        self.exec_block(node.orelse, env)
                        return
                    self.assign_target(node.target, getter(z3.IntVal(k)), env)
                    try:
                        self.exec_block(node.body, env)
                    except Brk:
                        return
                    except Cont:
                        continue
                if self.ctx.branch(z3.IntVal(K) < n, "unroll-bound@%d" % node.lineno):
                    raise PathEnd()  # beyond the stated bound
                self.exec_block(node.orelse, env)
                return
        if lc is not None and isinstance(it, PyList) and not it.items:
            lc = None  # a concretely empty list: the loop does nothing on this path, its contract has nothing to say
        if lc is None:
            items = self.pack.for_items(self, it, node)
            for x in items:
                self.assign_target(node.target, x, env)
                try:
                    self.exec_block(node.body, env)
                except Brk:
                    return
                except Cont:
                    continue
            self.exec_block(node.orelse, env)
            return
        if isinstance(it, Opaque) and it.tag == "range" and not isinstance(it.attrs["step"], int):
            return self._for_range_symbolic_step(node, env, it, lc, lname)
        seq = self.pack.for_sequence(self, it, node)  # (length term, getter(i_term)->value)
        n, getter = seq
        env.assign("_i", 0)
        self.check_invariants(lc, env, "entry", lname)
        self.havoc_loop(node, env, lc)
        i = z3.Int(self.ctx.fresh_name("_i"))
        self.ctx.assume(z3.And(0 <= i, i <= n))
        env.assign("_i", Sym(INT, i))
        self.assume_invariants(lc, env)
        if self.ctx.branch(i < n, "for@%d" % node.lineno):
            self.ctx.cover(lname + "/body")
            self.assign_target(node.target, getter(i), env)
            for nm, stxt in lc.lemmas.items():
                self.ctx.check("%s/lemma.%s" % (lname, nm), ops.truth(self.spec(stxt, env)), detail=stxt)
            try:
                self.exec_block(node.body, env)
            except Brk:
                return
            except Cont:
                pass
            env.assign("_i", Sym(INT, i + 1))
            self.check_invariants(lc, env, "preserved", lname)
            raise PathEnd()
        self.ctx.cover(lname + "/exit")
        self.exec_block(node.orelse, env)
