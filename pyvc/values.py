"""Symbolic value layer of pyvc.

Python values that the symbolic executor manipulates.  Concrete Python values
(None, bool, int, float, str, bytes, tuple) are kept as they are (constant
folding); everything else is one of the classes below.  Kinds describe how to
create fresh symbolic values and how to wrap a z3 term back into a value.
"""
import z3


class Unsupported(Exception):
    """The engine met a construct it has no semantics for (exit 2, never a verdict)."""


# --------------------------------------------------------------------------------------
# kinds
# --------------------------------------------------------------------------------------
_SORTS = {}


def usort(name):
    if name not in _SORTS:
        _SORTS[name] = z3.DeclareSort(name)
    return _SORTS[name]


class Kind:
    name = "?"

    def sort(self):
        raise Unsupported("kind %s has no z3 sort" % self.name)

    def wrap(self, term):
        return Sym(self, term)

    def fresh(self, ctx, hint="v"):
        return self.wrap(z3.Const(ctx.fresh_name(hint), self.sort()))

    def __repr__(self):
        return self.name

    def __eq__(self, other):
        return isinstance(other, Kind) and self.name == other.name

    def __hash__(self):
        return hash(self.name)


class _Int(Kind):
    name = "Int"

    def sort(self):
        return z3.IntSort()


class _Bool(Kind):
    name = "Bool"

    def sort(self):
        return z3.BoolSort()


class _Real(Kind):
    name = "Real"

    def sort(self):
        return z3.RealSort()


class _Bytes(Kind):
    name = "Bytes"

    def sort(self):
        return z3.SeqSort(z3.IntSort())


class _Str(Kind):
    name = "Str"

    def sort(self):
        return z3.StringSort()


INT, BOOL, REAL, BYTES, STR = _Int(), _Bool(), _Real(), _Bytes(), _Str()


class Atom(Kind):
    """Uninterpreted sort: equality (and identity) only."""

    def __init__(self, name):
        self.name = name

    def sort(self):
        return usort(self.name)


class Rec(Kind):
    """Immutable record (namedtuple-like) as an uninterpreted sort with field functions."""

    def __init__(self, _rec_name, **fields):
        self.name = _rec_name
        self.fields = fields

    def sort(self):
        return usort(self.name)

    def field_fn(self, f):
        return z3.Function("%s.%s" % (self.name, f), self.sort(), self.fields[f].sort())


class ListOf(Kind):
    def __init__(self, elt):
        self.elt = elt
        self.name = "List[%s]" % elt.name

    def fresh(self, ctx, hint="l"):
        n = ctx.fresh_name(hint)
        arr = z3.Const(n, z3.ArraySort(z3.IntSort(), self.elt.sort()))
        ln = z3.Int(n + ".len")
        ctx.assume(ln >= 0)
        return SList(self.elt, arr, ln)


class DictOf(Kind):
    def __init__(self, k, v):
        self.k, self.v = k, v
        self.name = "Dict[%s,%s]" % (k.name, v.name)

    def fresh(self, ctx, hint="d"):
        n = ctx.fresh_name(hint)
        dom = z3.Const(n + ".dom", z3.ArraySort(self.k.sort(), z3.BoolSort()))
        arr = z3.Const(n, z3.ArraySort(self.k.sort(), self.v.sort()))
        return SDict(self.k, self.v, dom, arr)


class Opt(Kind):
    """None or T: forks when a fresh value is created."""

    def __init__(self, k):
        self.k = k
        self.name = "Opt[%s]" % k.name

    def fresh(self, ctx, hint="o"):
        if ctx.choose(2, "opt:" + hint) == 0:
            return None
        return self.k.fresh(ctx, hint)


class OneOf(Kind):
    """A value drawn from finitely many alternatives (kinds or concrete constants); forks."""

    def __init__(self, *alts):
        self.alts = alts
        self.name = "OneOf[%s]" % ",".join(repr(a) for a in alts)

    def fresh(self, ctx, hint="u"):
        i = ctx.choose(len(self.alts), "oneof:" + hint)
        a = self.alts[i]
        if isinstance(a, Kind):
            return a.fresh(ctx, hint)
        return a


class _Shim:
    def __init__(self, ctx):
        self.ctx = ctx


class ObjOf(Kind):
    """A mutable object of repository class `cls` with the given field kinds."""

    def __init__(self, cls, **fields):
        self.cls = cls
        self.fields = fields
        self.name = "Obj[%s]" % cls

    def fresh(self, ctx, hint="obj"):
        o = SObj(self.cls, {})
        for f, k in self.fields.items():
            if isinstance(k, Kind):
                o.fields[f] = k.fresh(ctx, "%s.%s" % (hint, f))
            elif callable(k):
                o.fields[f] = k(_Shim(ctx))
            else:
                o.fields[f] = k
        return o


class OpaqueOf(Kind):
    """An external object known only through assumed method contracts."""

    def __init__(self, tag, **attrs):
        self.tag = tag
        self.attrs = attrs
        self.name = "Opaque[%s]" % tag

    def fresh(self, ctx, hint="ext"):
        o = Opaque(self.tag, ctx.fresh_name(hint))
        for f, k in self.attrs.items():
            o.attrs[f] = k.fresh(ctx, "%s.%s" % (hint, f)) if isinstance(k, Kind) else k
        return o


# --------------------------------------------------------------------------------------
# values
# --------------------------------------------------------------------------------------
class Sym:
    __slots__ = ("kind", "term")

    def __init__(self, kind, term):
        self.kind = kind
        self.term = term

    def __repr__(self):
        return "<%s %s>" % (self.kind.name, self.term)


class SList:
    """ArrList: (length, Int -> elt).  Mutable; Python object identity is aliasing."""

    def __init__(self, elt, arr, length):
        self.elt, self.arr, self.length = elt, arr, length

    def get(self, i):
        return self.elt.wrap(z3.Select(self.arr, i))

    def clone(self):
        return SList(self.elt, self.arr, self.length)

    def __repr__(self):
        return "<SList %s len=%s>" % (self.elt.name, self.length)


class PyList:
    """A list whose length and element positions are concrete (elements may be symbolic)."""

    def __init__(self, items=None):
        self.items = list(items or [])

    def clone(self):
        return PyList(self.items)

    def __repr__(self):
        return "<PyList %r>" % (self.items,)


class SDict:
    """Dict with symbolic keys: domain array + value array. Iteration order not modelled."""

    def __init__(self, k, v, dom, arr):
        self.k, self.v, self.dom, self.arr = k, v, dom, arr

    def clone(self):
        return SDict(self.k, self.v, self.dom, self.arr)

    def __repr__(self):
        return "<SDict %s->%s>" % (self.k.name, self.v.name)


class PyDict:
    """Dict with concrete (hashable Python) keys, insertion ordered."""

    def __init__(self, d=None):
        self.d = dict(d or {})

    def clone(self):
        return PyDict(self.d)

    def __repr__(self):
        return "<PyDict %r>" % (self.d,)


_UID = [0]


def new_uid():
    _UID[0] += 1
    return _UID[0]


class SObj:
    def __init__(self, cls, fields=None, uid=None):
        self.cls = cls
        self.fields = dict(fields or {})
        self.uid = uid or new_uid()

    def __repr__(self):
        return "<%s object>" % self.cls


class Opaque:
    """External object; `tag` selects assumed contracts for its methods."""

    def __init__(self, tag, name=None, **attrs):
        self.tag = tag
        self.name = name or tag
        self.attrs = dict(attrs)
        self.uid = new_uid()

    def __repr__(self):
        return "<opaque %s %s>" % (self.tag, self.name)


class ExcClass:
    def __init__(self, name, bases=(), pyclass=None):
        self.name = name
        self.bases = tuple(bases)
        self.pyclass = pyclass

    def mro_names(self):
        if self.pyclass is not None:
            return [c.__name__ for c in self.pyclass.__mro__]
        out = [self.name]
        for b in self.bases:
            out.extend(b.mro_names())
        return out

    def is_sub(self, other):
        return other.name in self.mro_names()

    def __repr__(self):
        return "<exc-class %s>" % self.name


class SExc:
    def __init__(self, cls, args=(), **fields):
        self.cls = cls
        self.args = tuple(args)
        self.fields = dict(fields)

    def __repr__(self):
        return "<exception %s>" % self.cls.name


class ClassRef:
    """A repository class (looked up in the pack's class table)."""

    def __init__(self, name):
        self.name = name

    def __repr__(self):
        return "<class %s>" % self.name


class TypeRef:
    """A builtin type used in isinstance tests."""

    def __init__(self, name):
        self.name = name

    def __repr__(self):
        return "<type %s>" % self.name

    # builtin types are singletons: `type(x) is bytes`, `type(x) in (bytes, bytearray)` compare them by identity / equality
    def __eq__(self, other):
        return isinstance(other, TypeRef) and other.name == self.name

    def __hash__(self):
        return hash(("TypeRef", self.name))


class ModuleRef:
    def __init__(self, dotted):
        self.dotted = dotted

    def __repr__(self):
        return "<module %s>" % self.dotted


class Closure:
    def __init__(self, node, env, module, owner_cls=None):
        self.node, self.env, self.module, self.owner_cls = node, env, module, owner_cls

    def __repr__(self):
        return "<closure %s>" % getattr(self.node, "name", "lambda")


class BoundMethod:
    def __init__(self, recv, name):
        self.recv, self.name = recv, name

    def __repr__(self):
        return "<bound %r.%s>" % (self.recv, self.name)


class Builtin:
    def __init__(self, name):
        self.name = name

    def __repr__(self):
        return "<builtin %s>" % self.name


class AttrGetter:
    def __init__(self, attr):
        self.attr = attr


class GenExp:
    """An unevaluated generator expression / comprehension, consumed by sum/min/any/join..."""

    def __init__(self, node, env, interp):
        self.node, self.env, self.interp = node, env, interp


class Sentinel:
    """A unique module-level object (identity comparisons only)."""

    def __init__(self, name, **attrs):
        self.name = name
        self.attrs = attrs

    def __repr__(self):
        return "<sentinel %s>" % self.name


def is_concrete(v):
    return v is None or isinstance(v, (bool, int, float, str, bytes, tuple, frozenset))


def to_term(v):
    """z3 term of a scalar value (concrete or Sym)."""
    if isinstance(v, Sym):
        return v.term
    if isinstance(v, bool):
        return z3.BoolVal(v)
    if isinstance(v, int):
        return z3.IntVal(v)
    if isinstance(v, float):
        return z3.RealVal(repr(v))
    if isinstance(v, str):
        return z3.StringVal(v)
    if isinstance(v, bytes):
        if len(v) == 0:
            return z3.Empty(z3.SeqSort(z3.IntSort()))
        units = [z3.Unit(z3.IntVal(b)) for b in v]
        return units[0] if len(units) == 1 else z3.Concat(*units)
    raise Unsupported("no z3 term for %r" % (v,))


def kind_of(v):
    if isinstance(v, Sym):
        return v.kind
    if isinstance(v, bool):
        return BOOL
    if isinstance(v, int):
        return INT
    if isinstance(v, float):
        return REAL
    if isinstance(v, str):
        return STR
    if isinstance(v, bytes):
        return BYTES
    return None


class Alternatives:
    """Candidate results of a modular call: the callee's ensures select the feasible ones."""

    def __init__(self, options):
        self.options = list(options)
