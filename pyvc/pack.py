"""Pack: the set of repository modules, contracts, assumed external contracts (models) for one check."""
import ast

import z3

from . import ops
from .contracts import Contract, Loop, SourceModule, loop_header, loops_of
from .interp import BUILTIN_EXC, Brk, Cont, Env, Interp, PyRaise, Ret, exc
from .values import (
    BOOL, BYTES, INT, REAL, STR, Atom, AttrGetter, BoundMethod, Builtin, ClassRef, Closure, ExcClass, GenExp, Kind,
    ListOf, ModuleRef, Opaque, PyDict, PyList, Rec, SDict, Sentinel, SExc, SList, SObj, Sym, TypeRef, Unsupported,
    is_concrete, kind_of, to_term,
)


class AnchorLost(Unsupported):
    pass


class Pack:
    def __init__(self, name, files=()):
        self.name = name
        self.files = list(files)
        self.contracts = {}  # (file, qualname) -> Contract
        self.models = {}
        self.globals = {}
        self.spec_funcs = {}
        self.log_calls = set()
        self.exc_ctor_fields = {}
        self.write_hooks = {}
        self.field_kinds = {}  # (cls, field) -> Kind
        self.assumptions = []  # human-readable list of trusted / assumed contracts
        self._spec_cache = {}
        self._class_mod = {}
        self.exc_dotted = {}
        from . import models as _m
        _m.install(self)
        for f in self.files:
            m = SourceModule.get(f)
            for cname in m.classes:
                self._class_mod.setdefault(cname, m)

    # -- registration --------------------------------------------------------------
    def add(self, c):
        key = (c.file, c.qualname) if not c.variant else (c.file, c.qualname, c.variant)
        if key in self.contracts:
            # a second contract under the same name would silently replace (weaken) the first one
            raise ValueError("duplicate contract %r in pack %s: give it a variant name" % (key, getattr(self, "name", "?")))
        self.contracts[key] = c
        if c.file not in self.files:
            self.files.append(c.file)
            m = SourceModule.get(c.file)
            for cname in m.classes:
                self._class_mod.setdefault(cname, m)
        p = c.params.get("self")
        if p is not None and hasattr(p, "fields"):
            for f, k in p.fields.items():
                if isinstance(k, Kind):
                    self.field_kinds.setdefault((p.cls, f), k)
        return c

    def assume_note(self, text):
        if text not in self.assumptions:
            self.assumptions.append(text)

    def model(self, key, note=None):
        def deco(fn):
            self.models[key] = fn
            if note:
                self.assume_note("%s: %s" % (key, note))
            return fn
        return deco

    def contract_for(self, file, qualname):
        return self.contracts.get((file, qualname))

    def field_kind(self, cls, field):
        for c in self.mro(cls):
            k = self.field_kinds.get((c, field))
            if k is not None:
                return k
        return None

    # -- classes -------------------------------------------------------------------
    def class_module(self, name):
        return self._class_mod.get(name)

    def mro(self, cls):
        return self._c3(cls)

    def _c3(self, cls):
        m = self.class_module(cls)
        if m is None:
            return [cls]
        bases = m.class_bases(cls)
        seqs = [self._c3(b) for b in bases] + [list(bases)]
        res = [cls]
        seqs = [s for s in seqs if s]
        while seqs:
            for s in seqs:
                cand = s[0]
                if not any(cand in t[1:] for t in seqs):
                    break
            else:
                raise Unsupported("inconsistent MRO for %s" % cls)
            res.append(cand)
            seqs = [[x for x in s if x != cand] for s in seqs]
            seqs = [s for s in seqs if s]
        return res

    def find_attr(self, cls, attr, after=None):
        """Look `attr` up along the MRO of repository class `cls` -> (kind, module, class, node)."""
        mro = self.mro(cls)
        if after is not None and after in mro:
            mro = mro[mro.index(after) + 1:]
        for c in mro:
            m = self.class_module(c)
            if m is None:
                continue
            fn = m.funcs.get("%s.%s" % (c, attr))
            if fn is not None:
                return ("method", m, c, fn)
            k = m.consts.get("%s.%s" % (c, attr))
            if k is not None:
                return ("const", m, c, k)
        return None

    def is_subclass(self, cls, other):
        return other in self.mro(cls)

    def resolve_import(self, module, target):
        """'.disk.memstr_to_bytes' -> (SourceModule, name) if the target is a repository module we index."""
        level = len(target) - len(target.lstrip("."))
        parts = target.lstrip(".").split(".")
        base = module.relpath.split("/")[:-1]
        for _ in range(level - 1):
            base = base[:-1]
        # try module.name
        for split in range(len(parts), 0, -1):
            rel = "/".join(base + parts[:split]) + ".py"
            rest = parts[split:]
            try:
                m = SourceModule.get(rel)
            except (FileNotFoundError, IsADirectoryError, NotADirectoryError):
                continue
            if len(rest) == 0:
                return (m, None)
            if len(rest) == 1 and (rest[0] in m.funcs or rest[0] in m.classes or rest[0] in m.consts):
                for cname in m.classes:
                    self._class_mod.setdefault(cname, m)
                return (m, rest[0])
            return None
        return None

    def exc_by_dotted(self, dotted):
        last = dotted.split(".")[-1]
        if dotted in self.exc_dotted:
            return self.exc_dotted[dotted]
        if last in BUILTIN_EXC:
            return BUILTIN_EXC[last]
        if last == "error" and dotted.startswith("os"):
            return BUILTIN_EXC["OSError"]
        # an exception class of another library: some subclass of Exception, unrelated to the classes we know
        self.exc_dotted[dotted] = ExcClass(dotted, bases=(BUILTIN_EXC["Exception"],))
        self.assume_note("exception class %s is a direct subclass of Exception" % dotted)
        return self.exc_dotted[dotted]

    # -- spec parsing --------------------------------------------------------------
    def parse_spec(self, text):
        n = self._spec_cache.get(text)
        if n is None:
            n = ast.parse(text.strip(), mode="eval").body
            self._spec_cache[text] = n
        return n

    # -- loops ---------------------------------------------------------------------
    def loop_contract(self, interp, node, env):
        """Find the Loop contract for a loop node of the function currently executed."""
        if getattr(interp.ctx.run, "bounded_unroll", 0):
            return None, None  # bounded stand-in: loop contracts are ignored, loops are unrolled
        mod = env.module
        # which function does this loop belong to?
        owner = None
        for q, fn in mod.funcs.items():
            if fn.lineno <= node.lineno <= getattr(fn, "end_lineno", fn.lineno):
                if owner is None or fn.lineno >= owner[1].lineno:
                    owner = (q, fn)
        if owner is None:
            return None, None
        q, fn = owner
        cur = interp.contract
        c = cur if (cur is not None and cur.file == mod.relpath and cur.qualname == q) else self.contract_for(mod.relpath, q)
        if c is None and cur is not None:
            # loop contracts of inlined helpers may be declared on the caller under "helper#k"
            lst = loops_of(fn)
            k = lst.index(node) + 1
            lc = cur.loops.get("%s#%d" % (q.split(".")[-1], k))
            if lc is not None:
                self._check_anchor(lc, node, q, k)
                return lc, "%s/loop%d" % (q, k)
            return None, None
        if c is None:
            return None, None
        lst = loops_of(fn)
        k = lst.index(node) + 1
        lc = c.loops.get(k)
        if lc is None:
            return None, None
        self._check_anchor(lc, node, q, k)
        return lc, "%s/loop%d" % (q, k)

    def _check_anchor(self, lc, node, q, k):
        hdr = loop_header(node)
        if hdr != lc.header:
            raise AnchorLost("loop %d of %s: header is %r, contract was written for %r" % (k, q, hdr, lc.header))

    # -- iteration -----------------------------------------------------------------
    def for_items(self, interp, it, node):
        if isinstance(it, Opaque) and it.tag == "range":
            a = it.attrs
            if all(isinstance(a[k], int) for k in ("start", "stop", "step")):
                return list(range(a["start"], a["stop"], a["step"]))
        if isinstance(it, Opaque) and it.tag == "enumerate":
            inner = self.for_items(interp, it.attrs["it"], node)
            return [(i, x) for i, x in enumerate(inner)]
        if isinstance(it, Opaque) and it.tag == "dict_items" and isinstance(it.attrs["d"], PyDict):
            return [(k, v) for k, v in it.attrs["d"].d.items()]
        if isinstance(it, Opaque) and it.tag == "dict_values" and isinstance(it.attrs["d"], PyDict):
            return list(it.attrs["d"].d.values())
        if isinstance(it, Opaque) and it.tag == "dict_keys" and isinstance(it.attrs["d"], PyDict):
            return list(it.attrs["d"].d.keys())
        return interp.iter_concrete(it, node)

    def for_sequence(self, interp, it, node):
        """(length term, getter) view of an iterable for a loop under contract."""
        if isinstance(it, SList):
            return it.length, (lambda i: it.get(i))
        if isinstance(it, Opaque) and it.tag == "enumerate" and isinstance(it.attrs["it"], SList):
            l = it.attrs["it"]
            return l.length, (lambda i: (Sym(INT, i), l.get(i)))
        if isinstance(it, Opaque) and it.tag == "range":
            a = it.attrs
            start, stop, step = a["start"], a["stop"], a["step"]
            if isinstance(step, int) and step > 0:
                s, e = ops.as_int_term(start), ops.as_int_term(stop)
                # number of items: max(0, ceil((stop-start)/step))
                n = z3.If(e <= s, z3.IntVal(0), (e - s + (step - 1)) / step)
                return n, (lambda i: Sym(INT, s + i * step))
        if isinstance(it, Opaque) and "seq" in it.attrs:
            return it.attrs["seq"]
        raise Unsupported("for-loop under contract over %r" % (it,))

    # -- context managers ------------------------------------------------------------
    def cm_enter(self, interp, cm, node):
        if isinstance(cm, Opaque):
            h = self.models.get("enter:" + cm.tag)
            if h:
                return h(interp, cm)
            return cm
        if isinstance(cm, SObj):
            found = self.find_attr(cm.cls, "__enter__")
            if found:
                return interp.call_method(cm, "__enter__", [], {}, node)
        raise Unsupported("with-statement over %r" % (cm,))

    def cm_exit(self, interp, cm, e, node):
        if isinstance(cm, Opaque):
            h = self.models.get("exit:" + cm.tag)
            if h:
                return h(interp, cm, e)
            return False
        if isinstance(cm, SObj):
            r = interp.call_method(cm, "__exit__", [e.cls if e else None, e, None], {}, node)
            t = ops.truth(r)
            return interp.ctx.branch(t, "exit-suppress") if e is not None else False
        return False

    # -- container methods -------------------------------------------------------------
    def container_method(self, interp, recv, name, args, kwargs, node):
        from . import models
        return models.container_method(self, interp, recv, name, args, kwargs, node)
