"""./check <property> [--tier quick|thorough]  -- decide one property; write evidence; exit code per DESIGN 3.5.

exit 0  every obligation generated from /repo's current source was discharged (known findings printed)
exit 1  VIOLATION line(s): an obligation is refuted (solver model) or refuted natively by the replay harness
exit 2  UNDECIDED: unsupported construct / lost anchor / solver unknown and no native counterexample
exit 3  CHECKER-ERROR: engine crash, vacuity guard failed, zero obligations
"""
import argparse
import importlib
import json
import os
import subprocess
import sys
import time

from .contracts import REPO, SourceModule
from .runner import FunctionRun

VERIF = os.path.dirname(os.path.dirname(os.path.abspath(__file__)))
VENV_PY = "/venv/bin/python"


def load_known():
    p = os.path.join(VERIF, "known_findings.json")
    if not os.path.exists(p):
        return {"findings": [], "fixed": []}
    with open(p) as f:
        return json.load(f)


_NATIVE_TMP = []


def _native_tmpdir():
    if not _NATIVE_TMP:
        import atexit
        import shutil
        import tempfile
        d = tempfile.mkdtemp(prefix="pyvc_native_")
        os.chmod(d, 0o755)  # (one scenario drops its privileges and must still reach what it created)
        atexit.register(shutil.rmtree, d, True)
        _NATIVE_TMP.append(d)
    return _NATIVE_TMP[0]


def run_native(script, args, timeout=600, python=VENV_PY):
    """Run a replay / bounded-search driver on the real code. Returns (rc, parsed-json-or-None, raw)."""
    env = dict(os.environ)
    env["PYTHONPATH"] = REPO + os.pathsep + VERIF
    env.pop("PYTHONHASHSEED", None)
    env["TMPDIR"] = _native_tmpdir()  # whatever the harness and its children leave in their temporary directory goes away with this run
    try:
        out = subprocess.run([python, os.path.join(VERIF, script)] + [str(a) for a in args], capture_output=True,
                             text=True, timeout=timeout, env=env, cwd=VERIF)
    except subprocess.TimeoutExpired as e:
        return 124, None, "timeout: %s" % e
    data = None
    for line in reversed(out.stdout.strip().splitlines()):
        line = line.strip()
        if line.startswith("{"):
            try:
                data = json.loads(line)
                break
            except ValueError:
                pass
    if data is None:
        try:
            os.makedirs(os.path.join(VERIF, "evidence", "replays"), exist_ok=True)
            with open(os.path.join(VERIF, "evidence", "replays", "last_native_raw.txt"), "w") as fh:
                fh.write("cmd: %s %s\nrc: %s\n--- stdout\n%s\n--- stderr\n%s" % (script, args, out.returncode, out.stdout[-20000:], out.stderr[-20000:]))
        except OSError:
            pass
    return out.returncode, data, (out.stdout[-4000:] + out.stderr[-4000:])


def main(argv=None):
    ap = argparse.ArgumentParser()
    ap.add_argument("prop")
    ap.add_argument("--tier", default=os.environ.get("VERIF_TIER", "quick"))
    ap.add_argument("--jobs", type=int, default=int(os.environ.get("PYVC_JOBS", "16")))
    ap.add_argument("--replay", default=None)
    a = ap.parse_args(argv)
    seed = int(os.environ.get("VERIF_SEED", "0") or 0)
    tier = "thorough" if a.tier == "thorough" else "quick"
    t0 = time.time()
    reg = importlib.import_module("contracts.registry").REGISTRY
    if a.prop not in reg:
        print("CHECKER-ERROR unknown property %s" % a.prop)
        return 3
    spec = reg[a.prop]
    if a.replay:
        with open(a.replay) as f:
            rp = json.load(f)
        print(json.dumps(rp, indent=1)[:4000])
        if rp.get("native_cmd"):
            rc, data, raw = run_native(rp["native_cmd"][0], rp["native_cmd"][1:])
            print(raw)
            return 1 if (data or {}).get("violation") else 0
        return 0

    rlimit = int(os.environ.get("PYVC_RLIMIT", "4000000")) * (5 if tier == "thorough" else 1)
    runs = []
    bounded_runs = []
    assumptions = []
    problems = []  # (kind, text)
    for modname in spec["packs"]:
        try:
            mod = importlib.import_module("contracts." + modname)
            pack = mod.build()
        except Exception as e:  # noqa
            import traceback
            print("CHECKER-ERROR building pack %s: %s\n%s" % (modname, e, traceback.format_exc()))
            return 3
        for key, c in pack.contracts.items():
            if a.prop not in c.props:
                continue
            if c.assumed:
                assumptions.append("assumed contract (body not verified here): %s — %s" % (c.qualname, c.note))
                continue
            run = FunctionRun(pack, c, rlimit=rlimit, jobs=a.jobs)
            run.cross_check = 2 if tier == "thorough" else 0
            run.run()
            runs.append((pack, c, run))
            if run.status == "unsupported" and "AnchorLost" in run.message:
                # the loop a contract was written for has been restructured: bounded stand-in (loops unrolled 3 times, symbolic data),
                # postconditions only; its results are never counted as discharged
                br = FunctionRun(pack, c, rlimit=rlimit, jobs=a.jobs)
                br.bounded_unroll = 3
                br.run()
                bounded_runs.append((c, br))
        for fn in getattr(pack, "structural", []):
            if getattr(fn, "props", None) and a.prop not in fn.props:
                continue
            # obligations decided by reading the real AST (class bodies, constant tables)
            from .ctx import ObligationResult
            sr = FunctionRun(pack, Contract_stub(fn.__name__), rlimit=rlimit)
            sr.sha, sr.paths, sr.completed_paths, sr.canary_ok = "ast", 1, 1, True
            for name, ok, detail in fn(pack):
                # ok: True discharged / False failed / None not decidable by reading (-> UNDECIDED)
                sr.results.append(ObligationResult(name, "unknown" if ok is None else ("discharged" if ok else "failed"), "ast", 0.0, model={"table": detail}, path=[], detail=detail))
            runs.append((pack, sr.contract, sr))
        for s in pack.assumptions:
            if s not in assumptions:
                assumptions.append(s)

    # composition lemmas over the contracts: every hypothesis must be backed by obligations generated and discharged in THIS run
    for lname in spec.get("lemmas", []):
        from .ctx import ObligationResult
        try:
            lmod = importlib.import_module("contracts.lemmas." + lname)
            lem = lmod.build()
        except Exception as e:  # noqa
            import traceback
            print("CHECKER-ERROR building lemma %s: %s\n%s" % (lname, e, traceback.format_exc()))
            return 3
        seen = {}
        for (_pk, _c, _run) in runs:
            for r in _run.results:
                seen.setdefault(r.name, []).append(r.status)
        t1 = time.time()
        missing = sorted({o for obs in lem["uses"].values() for o in obs if o not in seen})
        broken = sorted({o for obs in lem["uses"].values() for o in obs if o in seen and any(st != "discharged" for st in seen[o])})
        if missing or broken:
            status, detail = "unknown", "links not available in this run: missing %r, not discharged %r" % (missing, broken)
        else:
            status, detail = lmod.prove(lem, rlimit)
            if status == "vacuous":
                problems.append(("vacuity", "lemma %s: hypotheses are contradictory" % lem["name"]))
                status = "unknown"
        lr = FunctionRun(pack, Contract_stub(lname), rlimit=rlimit)
        lr.sha, lr.paths, lr.completed_paths, lr.canary_ok = "lemma", 1, 1, True
        lr.results.append(ObligationResult(lem["name"], status, "z3", time.time() - t1, model={"lemma": detail} if detail else {}, path=[],
                                           detail=lem["text"] + (" | " + detail if detail else "")))
        runs.append((pack, lr.contract, lr))
        assumptions.append("lemma %s: hypotheses are the named contract clauses (%d links to %d obligations); the monitor rule is assumed, not re-proved"
                           % (lem["name"], len(lem["hypotheses"]), sum(len(v) for v in lem["uses"].values())))

    known = load_known()
    known_for = [k for k in known.get("findings", []) if a.prop in k.get("properties", [k.get("property")])]

    total = discharged = 0
    by_backend = {}
    solver_time = 0.0
    failed, unknown = [], []
    functions = []
    samples = []
    exit_code = 0
    lines = []
    for pack, c, run in runs:
        # a clause may speak for some of the properties of its contract only (Contract.clause_props = {clause: [properties]})
        cp = getattr(c, "clause_props", None) or {}
        if cp:
            run.results = [r for r in run.results if not any(r.name.endswith("." + k) and a.prop not in props for k, props in cp.items())]
        n = len(run.results)
        d = sum(1 for r in run.results if r.status == "discharged")
        total += n
        discharged += d
        for r in run.results:
            by_backend[r.backend] = by_backend.get(r.backend, 0) + 1
            solver_time += r.time_s
            if r.status == "solver-disagreement":
                problems.append(("error", "solver disagreement on %s (z3 unsat, cvc5 sat)" % r.name))
            if r.status == "failed":
                failed.append((c, r))
            elif r.status == "unknown":
                unknown.append((c, r))
        names = sorted(set(r.name for r in run.results))
        functions.append({
            "function": "%s::%s%s" % (c.file, c.qualname, ("[%s]" % c.variant) if c.variant else ""), "source_sha256_16": run.sha, "paths": run.paths,
            "completed_paths": run.completed_paths, "obligations": n, "discharged": d, "status": run.status,
            "outcomes": run.outcomes, "distinct_obligations": names, "loop_invariants": sum(len(l.invariant) for l in c.loops.values()),
            "termination_measures": sum(1 for l in c.loops.values() if l.decreases), "wall_s": round(run.wall_s, 2),
        })
        if run.results and len(samples) < 6:
            r = run.results[len(run.results) // 2]
            samples.append({"obligation": r.name, "status": r.status, "backend": r.backend, "clause": r.detail[:200], "path": r.path})
        if run.status == "unsupported":
            problems.append(("undecided", "%s: %s" % (c.qualname, run.message)))
        elif run.status == "error":
            problems.append(("error", "%s: %s" % (c.qualname, run.message)))
        elif n == 0 or run.completed_paths == 0:
            problems.append(("error", "%s: zero obligations / no completed path (vacuous)" % c.qualname))
        elif any(x.endswith("/return") and ("call:" + x) not in run.covered for x in run.called):
            dead = sorted(x for x in run.called if x.endswith("/return") and ("call:" + x) not in run.covered)
            problems.append(("error", "%s: the contract of %s is never satisfiable where it is called (vacuous modular call)" % (c.qualname, ", ".join(dead))))
        elif run.canary_ok is False:
            problems.append(("error", "%s: canary `False` is provable at an exit (contradictory assumptions)" % c.qualname))

    # ---- bounded stand-ins and native conformance (never counted as discharged)
    bounded = []
    for c, br in bounded_runs:
        nb = len(br.results)
        fb = [r for r in br.results if r.status == "failed"]
        bounded.append({"tool": "pyvc bounded unrolling of %s (loop anchors lost)" % c.qualname, "bound": "loops unrolled <= 3 iterations, symbolic data; postconditions only",
                        "obligations": nb, "failed": len(fb), "status": br.status})
        for r in fb:
            r.name = r.name + " [bounded-unroll<=3]"
            failed.append((c, r))
    native_viol = []
    native_probes = []  # probes of recorded findings made by the native harnesses: {finding id: reproduces (bool) or a short witness}
    for b in spec.get("bounded", []):
        if tier == "quick" and b.get("thorough_only"):
            continue
        args = [x.replace("{seed}", str(seed)).replace("{tier}", tier) for x in b["args"]]
        if b.get("python") and not os.path.exists(b["python"]):
            bounded.append({"tool": b["name"], "bound": b.get("bound", ""), "rc": None, "note": "interpreter %s missing (run ./setup.sh): bounded check skipped" % b["python"]})
            continue
        rc, data, raw = run_native(b["script"], args, timeout=b.get("timeout", 900), python=b.get("python", VENV_PY))
        entry = {"tool": b["name"], "bound": b.get("bound", ""), "rc": rc}
        if data:
            entry.update({k: data[k] for k in data if k in ("cases", "violations", "violation", "witness", "what", "known", "note")})
        bounded.append(entry)
        if data is None or rc not in (0, 1):
            problems.append(("error", "bounded check %s crashed (rc=%s): %s" % (b["name"], rc, raw[-800:])))
        elif data.get("violation"):
            native_viol.append((b, data))
        if data and isinstance(data.get("known"), dict):
            native_probes.append((b, data))

    # ---- classification of failing obligations against known findings
    def match_known(name):
        for k in known_for:
            if any(name.startswith(p) or p in name for p in k.get("obligations", [])):
                return k
        return None

    new_fail, known_hit = [], {}
    for c, r in failed + unknown:
        k = match_known(r.name)
        if k is not None:
            known_hit.setdefault(k["id"], (k, []))[1].append(r)
        else:
            new_fail.append((c, r))
    new_native = []
    for b, data in native_viol:
        w = json.dumps(data.get("witness"), sort_keys=True)
        kk = None
        for k in known_for:
            if data.get("known") and k["id"] in data.get("known"):
                kk = k
        if data.get("unlisted", True) is False and data.get("known"):
            for kid in data["known"]:
                for k in known_for:
                    if k["id"] == kid:
                        known_hit.setdefault(kid, (k, []))
            continue
        new_native.append((b, data))

    # a finding that a native probe reproduces: KNOWN-FINDING if it is listed for this property, a violation if it is not
    listed_ids = {k["id"] for k in known_for}
    for b, data in native_probes:
        for kid, val in sorted(data["known"].items()):
            if not val:
                continue
            if kid in listed_ids:
                known_hit.setdefault(kid, ([k for k in known_for if k["id"] == kid][0], []))
            elif not any(kid == k["id"] for k in known.get("findings", [])) or True:
                if not data.get("violation"):
                    new_native.append((b, dict(data, violation=True, what="the probe of finding %s reproduces (%s) but the finding is not listed for %s in known_findings.json"
                                                % (kid, val, a.prop), witness=val)))

    os.makedirs(os.path.join(VERIF, "evidence", "replays"), exist_ok=True)
    nviol = 0

    def write_replay(tag, payload):
        base = os.environ.get("PYVC_EVIDENCE_DIR") or os.path.join(VERIF, "evidence")
        os.makedirs(os.path.join(base, "replays"), exist_ok=True)
        p = os.path.join(base, "replays", "%s-%s.json" % (a.prop, tag))
        with open(p, "w") as f:
            json.dump(payload, f, indent=1, default=str)
        return os.path.relpath(p, VERIF) if p.startswith(VERIF) else p

    # new failing obligations: try to replay natively
    if new_fail:
        names = sorted(set(r.name for _, r in new_fail))
        has_sat = any(r.status == "failed" for _, r in new_fail)
        rep = None
        rp = spec.get("replay")
        if rp and rp.get("python") and not os.path.exists(rp["python"]):
            rp = None
        if rp:
            args = [x.replace("{seed}", str(seed)).replace("{tier}", tier) for x in rp["args"]]
            rc, data, raw = run_native(rp["script"], args, timeout=rp.get("timeout", 600), python=rp.get("python", VENV_PY))
            if data and data.get("violation") and data.get("unlisted", True):
                rep = (rp, args, data, raw)
        first = [r for _, r in new_fail if r.status == "failed"] or [r for _, r in new_fail]
        payload = {
            "property": a.prop, "failed_obligations": names,
            "solver_output": [r.as_dict() for r in first[:3]],
            "note": "obligations that are discharged on the unchanged tree",
        }
        if rep is not None:
            payload["native_cmd"] = [rep[0]["script"]] + rep[1]
            payload["witness"] = rep[2].get("witness")
            payload["observed"] = rep[2].get("what")
            path = write_replay("viol", payload)
            lines.append("VIOLATION property=%s replay=%s" % (a.prop, path))
            nviol += 1
            exit_code = 1
        elif has_sat:
            payload["replay_status"] = "the native harness found no failing input for the solver's model"
            path = write_replay("viol", payload)
            lines.append("VIOLATION property=%s replay=%s no-failing-input-found" % (a.prop, path))
            nviol += 1
            exit_code = 1
        else:
            problems.append(("undecided", "solver returned unknown (z3 and cvc5) for %d obligation instance(s) and the "
                                           "native search found no counterexample: %s%s" % (len(new_fail), ", ".join(names[:6]),
                                           "".join(" | " + str(r.detail)[-600:] for _c, r in new_fail if str(r.name).startswith("lemma."))[:1500])))
    for b, data in new_native:
        if nviol and spec.get("replay") and b["script"] == spec["replay"]["script"] and b["args"][:1] == spec["replay"]["args"][:1]:
            continue  # same harness already reported above
        payload = {"property": a.prop, "native_cmd": [b["script"]] + [x.replace("{seed}", str(seed)).replace("{tier}", tier) for x in b["args"]],
                   "witness": data.get("witness"), "observed": data.get("what"), "failed_obligations": ["bounded:" + b["name"]]}
        path = write_replay("native-" + b["name"], payload)
        lines.append("VIOLATION property=%s replay=%s" % (a.prop, path))
        nviol += 1
        exit_code = 1

    for kid, (k, rs) in sorted(known_hit.items()):
        lines.append("KNOWN-FINDING: property=%s %s: %s" % (a.prop, kid, k["what"]))

    for kind, text in problems:
        if kind == "error":
            lines.append("CHECKER-ERROR %s" % text.splitlines()[0][:400])
            exit_code = max(exit_code, 3) if exit_code != 1 else 1
        else:
            lines.append("UNDECIDED %s" % text.splitlines()[0][:400])
            if exit_code == 0:
                exit_code = 2
    if total == 0 and not spec.get("bounded_only"):
        lines.append("CHECKER-ERROR zero obligations generated")
        if exit_code == 0:
            exit_code = 3

    selftest = []
    if tier == "thorough" and not os.environ.get("PYVC_NO_SELFTEST") and REPO == "/repo":
        selftest = seeded_selftest(a.prop)
        for st in selftest:
            if not st["caught"]:
                problems.append(("error", "seeded change %s is no longer caught by this check" % st["name"]))
                lines.append("CHECKER-ERROR seeded change %s is no longer caught (exit %s)" % (st["name"], st["exit"]))
                if exit_code == 0:
                    exit_code = 3
    # engine conformance (every tier; a few seconds): the interpreter agrees with CPython on the concrete corpus and, with the scalar arguments
    # made symbolic and pinned by a precondition, through the solver encodings.  Refusing a construct is allowed, disagreeing is not.
    conformance = None
    if not os.environ.get("PYVC_NO_CONFORMANCE"):
        import subprocess
        conformance = {}
        for mode, extra in (("concrete", []), ("symbolic", ["--symbolic"])):
            try:
                pr = subprocess.run([sys.executable, os.path.join(VERIF, "dev", "conformance", "run.py")] + extra, capture_output=True, text=True, timeout=900,
                                    env=dict(os.environ, PYVC_REPO=""))
                last = (pr.stdout.strip().splitlines() or ["{}"])[-1]
                conformance[mode] = json.loads(last)
                if pr.returncode != 0 or conformance[mode].get("disagree", 1) != 0 or conformance[mode].get("agree", 0) == 0:
                    bad_lines = [ln for ln in pr.stdout.splitlines() if ln.startswith(("MISMATCH", "engine-error"))][:3]
                    lines.append("CHECKER-ERROR engine conformance (%s): the interpreter disagrees with CPython: %s" % (mode, "; ".join(bad_lines)[:600] or pr.stderr[-300:]))
                    if exit_code == 0:
                        exit_code = 3
            except Exception as e:  # noqa
                lines.append("CHECKER-ERROR engine conformance (%s) could not run: %r" % (mode, e))
                if exit_code == 0:
                    exit_code = 3
    # assumed contracts of standard-library functions (dev/libmodels.py): refuted on this interpreter => the proofs that use them say nothing here
    libmodels = None
    if not os.environ.get("PYVC_NO_CONFORMANCE"):
        try:
            pr = subprocess.run([VENV_PY, os.path.join(VERIF, "dev", "libmodels.py")], capture_output=True, text=True, timeout=300)
            libmodels = json.loads((pr.stdout.strip().splitlines() or ["{}"])[-1])
            if pr.returncode != 0 or libmodels.get("refuted"):
                lines.append("CHECKER-ERROR an assumed standard-library contract is refuted on this interpreter: %s" % "; ".join(libmodels.get("refuted", []))[:600])
                if exit_code == 0:
                    exit_code = 3
        except Exception as e:  # noqa
            lines.append("CHECKER-ERROR library-model conformance could not run: %r" % (e,))
            if exit_code == 0:
                exit_code = 3
    n_known_obl = sum(len(rs) for _, rs in known_hit.values())
    ev = {
        "property_id": a.prop,
        "tier": tier,
        "seed": seed,
        "level": spec.get("level", "proof"),
        "coverage": {
            # obligations that express a LISTED known finding are reported separately (they fail by definition of the finding)
            "obligations": total - n_known_obl,
            "discharged": discharged,
            "obligations_generated_total": total,
            "failed": len(failed),
            "unknown": len(unknown),
            "failing_obligations_matching_known_findings": n_known_obl,
            "checker_cmd": "./check %s --tier %s" % (a.prop, tier),
            "trusted_base": ["pyvc symbolic semantics of Python (DESIGN 3.2, 3.3, Appendix B)", "z3 %s" % _z3v(), "cvc5 1.0.3 (second opinion on z3 unknowns)"] + spec.get("trusted", []),
            "by_backend": by_backend,
            "solver_time_s": round(solver_time, 2),
            "functions_under_contract": functions,
            "samples": samples,
            "bounded_checks": bounded,
            "known_findings_reported": sorted(known_hit),
            "seeded_selftest": selftest,
            "engine_conformance": conformance,
            "assumed_library_contracts_checked": libmodels,
            "cross_solver_rechecks": sum(1 for _, _, run in runs for r in run.results if r.backend.startswith("z3+cvc5")),
            "undecided_clauses": spec.get("undecided_clauses", []),
            "dropped_by_reading": spec.get("dropped", "see DESIGN.md 3.3 (exception/log message arguments not evaluated; float rounding; async exceptions; static attribute lookup)"),
            "repo": REPO,
            "explanation": spec.get("explanation", ""),
        },
        "assumptions": assumptions + spec.get("assumptions", []),
        "wall_s": round(time.time() - t0, 2),
        "violations": nviol,
    }
    evdir = os.environ.get("PYVC_EVIDENCE_DIR") or os.path.join(VERIF, "evidence")
    os.makedirs(evdir, exist_ok=True)
    with open(os.path.join(evdir, "%s.json" % a.prop), "w") as f:
        json.dump(ev, f, indent=1, default=str)
    print("%s tier=%s functions=%d obligations=%d discharged=%d failed=%d unknown=%d bounded=%d wall=%.1fs" % (
        a.prop, tier, len(runs), total, discharged, len(failed), len(unknown), len(bounded), time.time() - t0))
    for l in lines:
        print(l)
    return exit_code


def seeded_selftest(prop):
    """Thorough tier: every kept seeded change of this property must still be reported (on a scratch copy outside /repo and /verif)."""
    import glob
    import shutil
    import tempfile
    out = []
    for meta in sorted(glob.glob(os.path.join(VERIF, "seeded", "*", "meta.json"))):
        with open(meta) as f:
            m = json.load(f)
        if m.get("property") != prop:
            continue
        d = os.path.dirname(meta)
        scratch = tempfile.mkdtemp(prefix="pyvc_seeded_")
        try:
            shutil.copytree(os.path.join("/repo", "joblib"), os.path.join(scratch, "joblib"))
            ap = subprocess.run(["patch", "-p1", "-s", "-i", os.path.join(d, "patch.diff")], cwd=scratch, capture_output=True, text=True)
            if ap.returncode != 0:
                out.append({"name": os.path.basename(d), "caught": True, "exit": None, "note": "patch no longer applies to the current tree: skipped"})
                continue
            env = dict(os.environ)
            env.update(PYVC_REPO=scratch, PYVC_NO_SELFTEST="1", PYVC_EVIDENCE_DIR=scratch, VERIF_TIER="quick")
            r = subprocess.run([os.path.join(VERIF, "check"), prop, "--tier", "quick"], capture_output=True, text=True, env=env, cwd=VERIF, timeout=3000)
            out.append({"name": os.path.basename(d), "caught": r.returncode == 1 and "VIOLATION property=%s" % prop in r.stdout, "exit": r.returncode})
        finally:
            shutil.rmtree(scratch, ignore_errors=True)
    return out


def Contract_stub(name):
    from .contracts import Contract
    return Contract("(structural)", name)


def _z3v():
    import z3
    return z3.get_version_string()


if __name__ == "__main__":
    sys.exit(main())
