"""Python operator semantics over concrete / symbolic scalar values."""
import ast
import operator

import z3

from .values import (
    BOOL, BYTES, INT, REAL, STR, Atom, Opaque, PyDict, PyList, Rec, SDict, Sentinel, SExc, SList, SObj,
    Sym, Unsupported, is_concrete, kind_of, to_term, ClassRef, ExcClass, TypeRef, Closure, BoundMethod, Builtin,
)

NUM = (INT, REAL, BOOL)


def is_num_kind(k):
    return k in NUM


def as_int_term(v):
    """Integer z3 term of an int/bool value."""
    if isinstance(v, bool):
        return z3.IntVal(int(v))
    if isinstance(v, int):
        return z3.IntVal(v)
    if isinstance(v, Sym):
        if v.kind == INT:
            return v.term
        if v.kind == BOOL:
            return z3.If(v.term, z3.IntVal(1), z3.IntVal(0))
    raise Unsupported("not an integer: %r" % (v,))


def as_num_term(v):
    if isinstance(v, float):
        return z3.RealVal(repr(v))
    if isinstance(v, Sym) and v.kind == REAL:
        return v.term
    return as_int_term(v)


def truth(v):
    """Python truthiness: returns a python bool or a z3 BoolRef."""
    if v is None:
        return False
    if isinstance(v, z3.BoolRef):
        return v
    if isinstance(v, (bool, int, float, str, bytes, tuple, frozenset)):
        return bool(v)
    if isinstance(v, Sym):
        k = v.kind
        if k == BOOL:
            return v.term
        if k == INT:
            return v.term != 0
        if k == REAL:
            return v.term != 0
        if k in (BYTES, STR):
            return z3.Length(v.term) > 0
        if isinstance(k, (Atom, Rec)):
            return True
    if isinstance(v, SList):
        return v.length > 0
    if isinstance(v, PyList):
        return len(v.items) > 0
    if isinstance(v, PyDict):
        return len(v.d) > 0
    if isinstance(v, (SObj, Opaque, Sentinel, SExc, ClassRef, ExcClass, TypeRef, Closure, BoundMethod, Builtin)):
        if isinstance(v, Opaque) and "__bool__" in v.attrs:
            return truth(v.attrs["__bool__"])
        return True
    raise Unsupported("truthiness of %r" % (v,))


def mk_bool(t):
    if isinstance(t, bool):
        return t
    t = z3.simplify(t)
    if z3.is_true(t):
        return True
    if z3.is_false(t):
        return False
    return Sym(BOOL, t)


def b_and(*ts):
    ts = [t for t in ts if t is not True]
    if any(t is False for t in ts):
        return False
    if not ts:
        return True
    return z3.And(*ts) if len(ts) > 1 else ts[0]


def b_or(*ts):
    ts = [t for t in ts if t is not False]
    if any(t is True for t in ts):
        return True
    if not ts:
        return False
    return z3.Or(*ts) if len(ts) > 1 else ts[0]


def b_not(t):
    if isinstance(t, bool):
        return not t
    return z3.Not(t)


def b_implies(a, b):
    return b_or(b_not(a), b)


def floordiv_term(x, y):
    return z3.If(y > 0, x / y, (-x) / (-y))


def mod_term(x, y):
    return x - y * floordiv_term(x, y)


def identical(a, b):
    """`a is b` -> python bool or z3 Bool."""
    if isinstance(a, TypeRef) or isinstance(b, TypeRef):
        return isinstance(a, TypeRef) and isinstance(b, TypeRef) and a.name == b.name
    if a is None or b is None:
        if a is None and b is None:
            return True
        return False  # None vs any non-None value
    if isinstance(a, bool) or isinstance(b, bool):
        if isinstance(a, bool) and isinstance(b, bool):
            return a == b
        if isinstance(a, Sym) and a.kind == BOOL:
            return a.term == z3.BoolVal(b)
        if isinstance(b, Sym) and b.kind == BOOL:
            return b.term == z3.BoolVal(a)
        return False
    if isinstance(a, Sym) and isinstance(b, Sym):
        if a.kind == b.kind:
            return a.term == b.term
        return False
    if isinstance(a, Sym) or isinstance(b, Sym):
        s, o = (a, b) if isinstance(a, Sym) else (b, a)
        if is_concrete(o) and kind_of(o) == s.kind:
            return s.term == to_term(o)
        return False
    if is_concrete(a) and is_concrete(b) and not isinstance(a, tuple):
        return a == b and type(a) is type(b)
    if isinstance(a, (SObj, Opaque)) and isinstance(b, (SObj, Opaque)):
        return a.uid == b.uid  # snapshots taken for old(...) keep the uid
    return a is b


def equal(a, b):
    """`a == b` -> python bool or z3 Bool."""
    if isinstance(a, TypeRef) or isinstance(b, TypeRef):
        return isinstance(a, TypeRef) and isinstance(b, TypeRef) and a.name == b.name
    if a is None or b is None:
        return a is None and b is None
    if isinstance(a, tuple) and isinstance(b, tuple):
        if len(a) != len(b):
            return False
        return b_and(*[equal(x, y) for x, y in zip(a, b)])
    if isinstance(a, Sym) or isinstance(b, Sym):
        ka, kb = kind_of(a), kind_of(b)
        if ka is None or kb is None:
            return False
        if is_num_kind(ka) and is_num_kind(kb):
            if ka == BOOL and kb == BOOL:
                return to_term(a) == to_term(b)
            return as_num_term(a) == as_num_term(b)
        if ka == kb:
            return to_term(a) == to_term(b)
        return False
    if is_concrete(a) and is_concrete(b):
        return a == b
    if isinstance(a, PyList) and isinstance(b, PyList):
        if len(a.items) != len(b.items):
            return False
        return b_and(*[equal(x, y) for x, y in zip(a.items, b.items)])
    if isinstance(a, (SList, PyList)) and isinstance(b, (SList, PyList)):
        raise Unsupported("list equality between %r and %r" % (a, b))
    if isinstance(a, PyDict) and isinstance(b, PyDict):
        if set(a.d) != set(b.d):
            return False
        return b_and(*[equal(a.d[k], b.d[k]) for k in a.d])
    return a is b


_CMP = {ast.Lt: operator.lt, ast.LtE: operator.le, ast.Gt: operator.gt, ast.GtE: operator.ge}


def compare(op, a, b):
    """One comparison; returns python bool / z3 Bool.  May raise Unsupported."""
    if isinstance(op, ast.Eq):
        return equal(a, b)
    if isinstance(op, ast.NotEq):
        return b_not(equal(a, b))
    if isinstance(op, ast.Is):
        return identical(a, b)
    if isinstance(op, ast.IsNot):
        return b_not(identical(a, b))
    if type(op) in _CMP:
        f = _CMP[type(op)]
        if is_concrete(a) and is_concrete(b):
            return f(a, b)
        ka, kb = kind_of(a), kind_of(b)
        if is_num_kind(ka) and is_num_kind(kb):
            return f(as_num_term(a), as_num_term(b))
        raise Unsupported("ordering %r %s %r" % (a, type(op).__name__, b))
    raise Unsupported("comparison %s" % type(op).__name__)


def binop(op, a, b):
    """Arithmetic / sequence binary operator on scalars. Returns value (ZeroDivision handled by caller)."""
    if is_concrete(a) and is_concrete(b):
        f = {
            ast.Add: operator.add, ast.Sub: operator.sub, ast.Mult: operator.mul, ast.FloorDiv: operator.floordiv,
            ast.Mod: operator.mod, ast.Pow: operator.pow, ast.Div: operator.truediv, ast.BitAnd: operator.and_,
            ast.BitOr: operator.or_,
        }.get(type(op))
        if f is None:
            raise Unsupported("binop %s" % type(op).__name__)
        return f(a, b)
    ka, kb = kind_of(a), kind_of(b)
    if ka in (BYTES, STR) and kb == ka and isinstance(op, ast.Add):
        return Sym(ka, z3.Concat(to_term(a), to_term(b)))
    if ka == STR and isinstance(op, ast.Mod):
        raise Unsupported("string formatting as value")
    if is_num_kind(ka) and is_num_kind(kb):
        real = REAL in (ka, kb) or isinstance(op, ast.Div)
        if real:
            x, y = z3.ToReal(as_num_term(a)) if ka != REAL else as_num_term(a), z3.ToReal(as_num_term(b)) if kb != REAL else as_num_term(b)
            t = {ast.Add: lambda: x + y, ast.Sub: lambda: x - y, ast.Mult: lambda: x * y, ast.Div: lambda: x / y}.get(type(op))
            if t is None:
                raise Unsupported("real binop %s" % type(op).__name__)
            return Sym(REAL, t())
        x, y = as_int_term(a), as_int_term(b)
        if isinstance(op, ast.Add):
            return Sym(INT, x + y)
        if isinstance(op, ast.Sub):
            return Sym(INT, x - y)
        if isinstance(op, ast.Mult):
            return Sym(INT, x * y)
        if isinstance(op, ast.FloorDiv):
            return Sym(INT, floordiv_term(x, y))
        if isinstance(op, ast.Mod):
            return Sym(INT, mod_term(x, y))
        if isinstance(op, ast.Pow) and isinstance(b, int) and 0 <= b <= 4:
            t = z3.IntVal(1)
            for _ in range(b):
                t = t * x
            return Sym(INT, t)
    raise Unsupported("binop %s on %r, %r" % (type(op).__name__, a, b))


def seq_len(v):
    if isinstance(v, (str, bytes, tuple)):
        return len(v)
    if isinstance(v, Sym) and v.kind in (BYTES, STR):
        return Sym(INT, z3.Length(v.term))
    if isinstance(v, SList):
        return Sym(INT, v.length)
    if isinstance(v, PyList):
        return len(v.items)
    if isinstance(v, PyDict):
        return len(v.d)
    raise Unsupported("len(%r)" % (v,))


def norm_index_terms(lo, hi, n):
    """Python slice bound normalisation for step 1: returns (start, stop) z3 terms in [0, n]."""
    def norm(x, default):
        if x is None:
            return default
        x = as_int_term(x)
        return z3.If(x < 0, z3.If(n + x < 0, z3.IntVal(0), n + x), z3.If(x > n, n, x))
    return norm(lo, z3.IntVal(0)), norm(hi, n)


def seq_slice(v, lo, hi):
    if (is_concrete(v)) and (lo is None or isinstance(lo, int)) and (hi is None or isinstance(hi, int)):
        return v[lo:hi]
    t = to_term(v)
    n = z3.Length(t)
    start, stop = norm_index_terms(lo, hi, n)
    ln = z3.If(stop - start < 0, z3.IntVal(0), stop - start)
    return Sym(kind_of(v), z3.SubSeq(t, start, ln))
