"""Verify one contract against the real function body: enumerate paths, collect obligations."""
import ast
import time
import traceback

import os
import sys

import z3

from . import ops
from .contracts import SourceModule, loops_of
from .ctx import Ctx, Infeasible, PathEnd, RLIMIT_QUICK
from .interp import Brk, Cont, Env, Interp, PyRaise, Ret
from .values import Kind, PyDict, PyList, Unsupported

MAX_PATHS = 100000
_WORKER_RUN = None


def _worker_path(prefix):
    pack, contract, rlimit, xc, bu = _WORKER_RUN
    run = FunctionRun(pack, contract, rlimit)
    run.cross_check = xc
    run.bounded_unroll = bu
    run.worklist = []
    out = {"status": "ok", "message": "", "results": [], "covered": set(), "completed": 0, "outcomes": {},
           "canary": None, "samples": [], "new": []}
    try:
        mod = SourceModule.get(contract.file)
        fnode = mod.func(contract.qualname)
        run.run_path(mod, fnode, prefix)
    except Unsupported as u:
        out["status"], out["message"] = "unsupported", "%s: %s" % (type(u).__name__, u)
    except Exception as e:
        out["status"], out["message"] = "error", "%s: %s\n%s" % (type(e).__name__, e, traceback.format_exc())
    out["results"] = run.results
    out["covered"] = run.covered
    out["called"] = run.called
    out["completed"] = run.completed_paths
    out["outcomes"] = run.outcomes
    out["canary"] = run.canary_ok
    out["samples"] = run.sample_paths
    out["new"] = run.worklist
    return out


class FunctionRun:
    def __init__(self, pack, contract, rlimit=None, jobs=1):
        self.pack, self.contract = pack, contract
        self.rlimit = rlimit or RLIMIT_QUICK
        self.worklist = [[]]
        self.results = []
        self.covered = set()
        self.paths = 0
        self.completed_paths = 0
        self.status = "ok"  # ok | unsupported | error
        self.message = ""
        self.canary_ok = None
        self.outcomes = {}
        self.wall_s = 0.0
        self.sha = None
        self.sample_paths = []
        self.jobs = jobs
        self.called = set()
        self.bounded_unroll = 0  # > 0: bounded stand-in (loop contracts ignored, loops unrolled this many times)
        self.cross_check = 0   # per path: how many discharged obligations get a cvc5 second opinion (thorough tier)
        self.xcount = 0

    def _run_parallel(self, mod, fnode):
        """Explore paths in forked worker processes (each path is independent given its decision prefix)."""
        import concurrent.futures as cf
        import multiprocessing as mp
        global _WORKER_RUN
        _WORKER_RUN = (self.pack, self.contract, self.rlimit, self.cross_check, self.bounded_unroll)
        ctxm = mp.get_context("fork")
        with cf.ProcessPoolExecutor(max_workers=self.jobs, mp_context=ctxm) as ex:
            pending = set()
            def submit(prefix):
                self.paths += 1
                if self.paths > MAX_PATHS:
                    raise Unsupported("path budget exceeded for %s" % self.contract.qualname)
                pending.add(ex.submit(_worker_path, prefix))
            submit([])
            self.worklist = []
            while pending:
                done, _ = cf.wait(pending, return_when=cf.FIRST_COMPLETED)
                for f in done:
                    pending.discard(f)
                    r = f.result()
                    if r["status"] != "ok":
                        self.status, self.message = r["status"], r["message"]
                        for g in pending:
                            g.cancel()
                        return
                    self.results.extend(r["results"])
                    self.covered |= r["covered"]
                    self.called |= r["called"]
                    self.completed_paths += r["completed"]
                    for k, v in r["outcomes"].items():
                        self.outcomes[k] = self.outcomes.get(k, 0) + v
                    if r["canary"] is not None and self.canary_ok is not False:
                        self.canary_ok = r["canary"] if self.canary_ok is None else (self.canary_ok and r["canary"])
                    self.sample_paths = (self.sample_paths + r["samples"])[:3]
                    for pre in r["new"]:
                        submit(pre)

    def push(self, prefix):
        self.worklist.append(list(prefix))

    def record(self, r):
        self.results.append(r)

    # ------------------------------------------------------------------------------
    def run(self):
        t0 = time.time()
        c = self.contract
        try:
            mod = SourceModule.get(c.file)
            fnode = mod.func(c.qualname)
            self.sha = mod.segment_sha(fnode)
            if not self.bounded_unroll:
                self._check_loop_anchors(fnode)
            if self.jobs > 1:
                self._run_parallel(mod, fnode)
            else:
                while self.worklist:
                    prefix = self.worklist.pop()
                    self.paths += 1
                    if self.paths > MAX_PATHS:
                        raise Unsupported("path budget exceeded for %s" % c.qualname)
                    self.run_path(mod, fnode, prefix)
        except Unsupported as u:
            self.status = "unsupported"
            self.message = "%s: %s" % (type(u).__name__, u)
        except z3.Z3Exception as e:
            self.status = "error"
            self.message = "z3: %s\n%s" % (e, traceback.format_exc())
        except Exception as e:  # engine bug: checker error, never a verdict
            self.status = "error"
            self.message = "%s: %s\n%s" % (type(e).__name__, e, traceback.format_exc())
        self.wall_s = time.time() - t0
        return self

    def _check_loop_anchors(self, fnode):
        from .contracts import loop_header
        from .pack import AnchorLost
        lst = loops_of(fnode)
        for k, lc in self.contract.loops.items():
            if not isinstance(k, int):
                continue
            if k > len(lst):
                raise AnchorLost("loop %d of %s no longer exists" % (k, self.contract.qualname))
            if loop_header(lst[k - 1]) != lc.header:
                raise AnchorLost("loop %d of %s: header is %r, contract was written for %r" % (
                    k, self.contract.qualname, loop_header(lst[k - 1]), lc.header))

    def run_path(self, mod, fnode, prefix):
        c = self.contract
        ctx = Ctx(self, prefix)
        interp = Interp(ctx, self.pack, c)
        try:
            penv = Env(mod, None, c.qualname, c.cls)
            env = Env(mod, penv, c.qualname, c.cls)
            for g, k in c.ghost.items():
                ctx.ghost[g] = k.fresh(ctx, g) if isinstance(k, Kind) else k
            a = fnode.args
            names = [p.arg for p in list(a.posonlyargs) + list(a.args) + list(a.kwonlyargs)]
            pos = list(a.posonlyargs) + list(a.args)
            defaults = dict(zip([p.arg for p in pos][len(pos) - len(a.defaults):], a.defaults))
            defaults.update({p.arg: d for p, d in zip(a.kwonlyargs, a.kw_defaults) if d is not None})
            if a.vararg:
                names.append(a.vararg.arg)
            if a.kwarg:
                names.append(a.kwarg.arg)
            for n, k in c.params.items():
                if n in names:
                    continue
                penv.assign(n, k.fresh(ctx, n) if isinstance(k, Kind) else (k(interp) if callable(k) else k))
            for n in names:
                if n in c.params:
                    k = c.params[n]
                    v = k.fresh(ctx, n) if isinstance(k, Kind) else (k(interp) if callable(k) else k)
                elif n in defaults:
                    v = interp.eval(defaults[n], Env(mod))
                elif a.vararg and n == a.vararg.arg:
                    v = ()
                elif a.kwarg and n == a.kwarg.arg:
                    v = PyDict({})
                else:
                    raise Unsupported("parameter %s of %s has no kind in the contract" % (n, c.qualname))
                env.assign(n, v)
            if c.setup is not None:
                c.setup(interp, env)
            for r in c.requires:
                ctx.assume(ops.truth(interp.spec(r, env)))
            if ctx._sat(z3.BoolVal(True)) == z3.unsat:
                raise Infeasible()
            env.old = interp.snapshot_env(env)
            penv.old = env.old
            entry = dict(env.vars)  # parameter NAMES denote the entry objects (mutations of objects stay visible)
            outcome, val = "return", None
            try:
                interp.exec_block(fnode.body, env)
            except Ret as r:
                val = r.value
            except PyRaise as pr:
                outcome, val = "raise", pr.exc
            except (Brk, Cont):
                raise Unsupported("break/continue escaped the function body")
            # in postconditions, parameter names denote the values at entry (immutable ones); objects are live
            penv2 = Env(mod, env, c.qualname, c.cls)
            penv2.vars.update(entry)
            penv2.old = env.old
            if not ctx.replaying:
                if ctx._sat(z3.BoolVal(True)) == z3.unsat:
                    # the path condition is contradictory: an infeasible path that the branch-feasibility checks (unknown counts as
                    # feasible, short time budget, nonlinear arithmetic) let through.  Nothing is reachable here: not an exit of the function.
                    # (Assumptions that contradict each other on EVERY path leave no completed path: reported as vacuous.)
                    raise Infeasible()
                self.canary_ok = True  # vacuity guard: `False` is not provable at this exit
            self.completed_paths += 1  # the function reached an exit on this path
            if len(self.sample_paths) < 3:
                self.sample_paths.append(",".join(ctx.notes[:10]))
            self.finish(interp, penv2, outcome, val)
        except (Infeasible, PathEnd):
            pass

    def finish(self, interp, env, outcome, val):
        c = self.contract
        ctx = interp.ctx
        q = c.qualname + ("[%s]" % c.variant if c.variant else "")
        env.extra["yields"] = PyList(ctx.yields)
        if outcome == "return":
            self.outcomes["return"] = self.outcomes.get("return", 0) + 1
            env.extra["result"] = val
            ctx.cover(q + "/return")
            for nm, s in list(c.ensures.items()) + list(c.ensures_body.items()):
                try:
                    goal = ops.truth(interp.spec(s, env))
                except PyRaise as pr:
                    # the postcondition is not even evaluable in this final state (e.g. a key is missing)
                    ctx.check("%s/post.%s" % (q, nm), False, detail="%s  -- not evaluable: %s" % (s, pr.exc.cls.name))
                    continue
                ctx.check("%s/post.%s" % (q, nm), goal, detail=s)
        else:
            ename = val.cls.name
            self.outcomes[ename] = self.outcomes.get(ename, 0) + 1
            match = None
            for k in c.exsures:
                kc = interp.pack.exc_by_dotted(k) if "." in k else interp.global_lookup(k, env.module)
                if val.cls.is_sub(kc):
                    match = k
                    break
            if match is None:
                ctx.check("%s/no-unexpected-exception" % q, False, detail="escaping %s" % ename)
                return
            ctx.cover(q + "/raise." + match)
            env.extra["exc"] = val
            for nm, s in c.exsures[match].items():
                try:
                    goal = ops.truth(interp.spec(s, env))
                except PyRaise as pr:
                    ctx.check("%s/raise.%s.%s" % (q, match, nm), False, detail="%s  -- not evaluable: %s" % (s, pr.exc.cls.name))
                    continue
                ctx.check("%s/raise.%s.%s" % (q, match, nm), goal, detail=s)

    # ------------------------------------------------------------------------------
    def summary(self):
        by = {}
        for r in self.results:
            by.setdefault(r.name, []).append(r)
        return by
