"""Models of Python builtins and container methods (part of the semantics the encoding assumes)."""
import ast

import z3

from . import ops
from .values import (
    BOOL, BYTES, INT, REAL, STR, Atom, AttrGetter, BoundMethod, Builtin, ClassRef, Closure, ExcClass, GenExp, Kind,
    ListOf, ModuleRef, Opaque, PyDict, PyList, Rec, SDict, Sentinel, SExc, SList, SObj, Sym, TypeRef, Unsupported,
    is_concrete, kind_of, to_term,
)


def _isinstance_one(interp, v, t):
    """isinstance(v, t) for one class t -> python bool."""
    from .interp import BUILTIN_EXC
    if isinstance(t, TypeRef):
        n = t.name
        k = kind_of(v)
        if n == "object":
            return True
        if isinstance(v, Opaque) and n in v.attrs.get("isinstance", ()):
            return True  # an opaque stand-in declared to be of this builtin type (e.g. a text whose characters are not modelled)
        if n == "str":
            return k == STR
        if n == "bytes":
            return k == BYTES
        if n == "bool":
            return k == BOOL
        if n == "int":
            return k in (INT, BOOL)
        if n == "float":
            return k == REAL
        if n == "tuple":
            return isinstance(v, tuple)
        if n == "list":
            return isinstance(v, (PyList, SList))
        if n == "dict":
            return isinstance(v, (PyDict, SDict))
        if n in ("set", "frozenset"):
            return isinstance(v, frozenset)
        if n == "memoryview":
            return isinstance(v, Opaque) and v.tag == "memoryview"
        raise Unsupported("isinstance(_, %s)" % n)
    if isinstance(t, ClassRef):
        if isinstance(v, SObj):
            return interp.pack.is_subclass(v.cls, t.name)
        if isinstance(v, Opaque) and "isinstance" in v.attrs:
            return t.name in v.attrs["isinstance"]
        if isinstance(v, Sentinel):
            return v.attrs.get("__class__") == t.name
        return False
    if isinstance(t, Opaque) and "classname" in t.attrs:
        # a class object of an external library modelled as an opaque value (e.g. numpy.ndarray): the contract lists the classes of `v`
        if isinstance(v, Opaque):
            return t.attrs["classname"] in v.attrs.get("isinstance", ())
        return False
    if isinstance(t, ExcClass):
        return isinstance(v, SExc) and v.cls.is_sub(t)
    if isinstance(t, ModuleRef):
        last = t.dotted.split(".")[-1]
        if isinstance(v, Opaque) and "isinstance" in v.attrs:
            return last in v.attrs["isinstance"]
        if last == "Integral":
            return kind_of(v) in (INT, BOOL)
        if isinstance(v, SExc):
            return v.cls.is_sub(interp.pack.exc_by_dotted(t.dotted))
        if isinstance(v, (SObj, Sentinel)) or is_concrete(v) or isinstance(v, (Sym, PyList, PyDict, SList, SDict)):
            return False
        raise Unsupported("isinstance(%r, %s)" % (v, t.dotted))
    raise Unsupported("isinstance against %r" % (t,))


def m_isinstance(interp, args, kwargs):
    v, t = args
    ts = t if isinstance(t, tuple) else (t,)
    if isinstance(v, Sym) and isinstance(v.kind, Atom):
        h = interp.pack.models.get("isinstance:" + v.kind.name)
        if h is not None:
            return ops.mk_bool(ops.b_or(*[h(interp, v, x) for x in ts]))
    return any(_isinstance_one(interp, v, x) for x in ts)


def m_len(interp, args, kwargs):
    v = args[0]
    if isinstance(v, Opaque):
        h = interp.pack.models.get("len:" + v.tag)
        if h:
            return h(interp, v)
    if isinstance(v, SObj):
        return interp.call_method(v, "__len__", [], {})
    if isinstance(v, Sym) and isinstance(v.kind, (Rec, Atom)):
        h = interp.pack.models.get("len:" + v.kind.name)
        if h:
            return h(interp, v)
    if getattr(v, "pyvc_len", None) is not None:
        return v.pyvc_len(interp)
    return ops.seq_len(v)


def _minmax(interp, args, kwargs, is_max):
    if len(args) == 1:
        src = args[0]
        if isinstance(src, GenExp):
            return _minmax_gen(interp, src, is_max)
        items = interp.iter_concrete(src)
    else:
        items = list(args)
    if not items:
        interp.raise_("ValueError")
    if all(is_concrete(x) for x in items):
        return (max if is_max else min)(items)
    acc = items[0]
    for x in items[1:]:
        if kind_of(acc) not in ops.NUM or kind_of(x) not in ops.NUM:
            raise Unsupported("min/max of non-numeric values")
        real = REAL in (kind_of(acc), kind_of(x))
        a, b = ops.as_num_term(acc), ops.as_num_term(x)
        if real:
            a = z3.ToReal(a) if a.sort() == z3.IntSort() else a
            b = z3.ToReal(b) if b.sort() == z3.IntSort() else b
        # Python keeps the first on ties; values are equal then, so the term is the same
        t = z3.If(b > a, b, a) if is_max else z3.If(b < a, b, a)
        acc = Sym(REAL if real else INT, t)
    return acc


def _gen_over_slist(interp, g):
    node = g.node
    if len(node.generators) != 1 or node.generators[0].ifs:
        raise Unsupported("generator expression shape")
    gen = node.generators[0]
    src = interp.eval(gen.iter, g.env)
    return node, gen, src


def _elt_fn(interp, g, node, gen, src):
    """Return f(i_term) -> value of the element expression on src[i]."""
    from .interp import Env

    def f(i):
        e2 = Env(g.env.module, g.env, g.env.qualname, g.env.owner_cls)
        interp.assign_target(gen.target, src.get(i), e2)
        interp.spec_mode += 1
        try:
            return interp.eval(node.elt, e2)
        finally:
            interp.spec_mode -= 1
    return f


def psum_term(interp, src, key, f, upto):
    """Prefix-sum spec function over an ArrList, with its two defining axioms (instantiated per array)."""
    ctx = interp.ctx
    fn = z3.Function("psum<%s>" % key, src.arr.sort(), z3.IntSort(), z3.IntSort())
    i = z3.Int("i!psum")
    ax = z3.And(
        fn(src.arr, 0) == 0,
        z3.ForAll([i], z3.Implies(i >= 0, fn(src.arr, i + 1) == fn(src.arr, i) + ops.as_int_term(f(i))),
                  patterns=[fn(src.arr, i + 1)]),
    )
    ctx.add_axiom(("psum", key, str(src.arr)), ax)
    return fn(src.arr, upto)


def m_sum(interp, args, kwargs):
    src = args[0]
    if isinstance(src, GenExp):
        node, gen, s = _gen_over_slist(interp, src)
        if isinstance(s, SList):
            f = _elt_fn(interp, src, node, gen, s)
            key = "%s:%s" % (s.elt.name, ast.unparse(node.elt))
            e = node.elt
            if isinstance(e, ast.Attribute) and isinstance(e.value, ast.Name) and isinstance(gen.target, ast.Name) \
                    and e.value.id == gen.target.id:
                key = "%s:%s" % (s.elt.name, e.attr)
            return Sym(INT, psum_term(interp, s, key, f, s.length))
        items = interp.comprehension_list(node, src.env).items
    else:
        items = interp.iter_concrete(src)
    acc = args[1] if len(args) > 1 else 0
    for x in items:
        acc = interp.binop(ast.Add(), acc, x)
    return acc


def _minmax_gen(interp, g, is_max):
    node, gen, s = _gen_over_slist(interp, g)
    if not isinstance(s, SList):
        items = interp.comprehension_list(node, g.env).items
        return _minmax(interp, [PyList(items)], {}, is_max)
    ctx = interp.ctx
    if ctx.branch(s.length == 0, "minmax-empty"):
        interp.raise_("ValueError")
    f = _elt_fn(interp, g, node, gen, s)
    sample = f(z3.IntVal(0))
    k = kind_of(sample)
    m = k.fresh(ctx, "max" if is_max else "min")
    i = z3.Int("i!mm")
    w = z3.Int(ctx.fresh_name("w!mm"))
    fi = to_term(f(i))
    ctx.assume(z3.ForAll([i], z3.Implies(z3.And(0 <= i, i < s.length), (fi <= m.term) if is_max else (fi >= m.term))))
    ctx.assume(z3.And(0 <= w, w < s.length, to_term(f(w)) == m.term))
    return m


def m_anyall(is_any):
    def h(interp, args, kwargs):
        src = args[0]
        if isinstance(src, GenExp):
            node = src.node
            gen = node.generators[0]
            s = interp.eval(gen.iter, src.env)
            if isinstance(s, SList) and len(node.generators) == 1 and not gen.ifs:
                f = _elt_fn(interp, src, node, gen, s)
                i = z3.Int(interp.ctx.fresh_name("i!aa"))
                body = ops.truth(f(i))
                body = z3.BoolVal(body) if isinstance(body, bool) else body
                rng = z3.And(0 <= i, i < s.length)
                t = z3.Exists([i], z3.And(rng, body)) if is_any else z3.ForAll([i], z3.Implies(rng, body))
                return ops.mk_bool(t)
            items = interp.comprehension_list(node, src.env).items
        else:
            items = interp.iter_concrete(src)
        ts = [ops.truth(x) for x in items]
        return ops.mk_bool(ops.b_or(*ts) if is_any else ops.b_and(*ts))
    return h


def m_int(interp, args, kwargs):
    if not args:
        return 0
    v = args[0]
    if isinstance(v, (int, bool)):
        return int(v)
    if isinstance(v, float):
        return int(v)
    k = kind_of(v)
    if k in (INT, BOOL):
        return Sym(INT, ops.as_int_term(v))
    if k == REAL:
        # truncation toward zero
        t = v.term
        fl = z3.ToInt(t)
        return Sym(INT, z3.If(t >= 0, fl, -z3.ToInt(-t)))
    if k == STR:
        if isinstance(v, str):
            try:
                return int(v)
            except ValueError:
                interp.raise_("ValueError")
        h = interp.pack.models.get("int:str")
        if h:
            return h(interp, v)
        # int(s): either a ValueError or some integer (the decode is not interpreted)
        if interp.ctx.choose(2, "int(str)") == 0:
            interp.raise_("ValueError")
        return INT.fresh(interp.ctx, "int")
    raise Unsupported("int(%r)" % (v,))


def m_str(interp, args, kwargs):
    if not args:
        return ""
    v = args[0]
    if isinstance(v, str):
        return v
    if isinstance(v, (int, bool)) and not isinstance(v, Sym):
        return str(v)
    if isinstance(v, Sym) and v.kind is STR:
        return v   # str(s) is s for a str
    if isinstance(v, Opaque):
        h = interp.pack.models.get("str:" + v.tag)
        if h:
            return h(interp, v)
    return STR.fresh(interp.ctx, "str")


def m_list(interp, args, kwargs):
    if not args:
        return PyList([])
    v = args[0]
    if isinstance(v, SList):
        return v.clone()
    if isinstance(v, Opaque):
        h = interp.pack.models.get("list:" + v.tag)
        if h:
            return h(interp, v)
    return PyList(interp.pack.for_items(interp, v, None))


def m_tuple(interp, args, kwargs):
    if not args:
        return ()
    return tuple(interp.pack.for_items(interp, args[0], None))


def m_dict(interp, args, kwargs):
    d = {}
    if args:
        src = args[0]
        if isinstance(src, PyDict):
            d.update(src.d)
        else:
            for kv in interp.pack.for_items(interp, src, None):
                k, v = kv
                d[k] = v
    d.update(kwargs)
    return PyDict(d)


def m_range(interp, args, kwargs):
    if len(args) == 1:
        a = (0, args[0], 1)
    elif len(args) == 2:
        a = (args[0], args[1], 1)
    else:
        a = tuple(args)
    step = a[2]
    if isinstance(step, int) and not isinstance(step, bool):
        if step == 0:
            interp.raise_("ValueError")  # range() arg 3 must not be zero
    elif kind_of(step) in (INT, BOOL):
        if interp.ctx.branch(ops.as_int_term(step) == 0, "range-step-zero"):
            interp.raise_("ValueError")
    return Opaque("range", None, start=a[0], stop=a[1], step=a[2])


def m_enumerate(interp, args, kwargs):
    return Opaque("enumerate", None, it=args[0])


def m_hasattr(interp, args, kwargs):
    obj, name = args
    if isinstance(obj, SObj):
        if name in obj.fields:
            return True
        if interp.pack.find_attr(obj.cls, name) is not None:
            return True
        if isinstance(obj.fields.get("__hasattr__"), dict) and name in obj.fields["__hasattr__"]:
            return obj.fields["__hasattr__"][name]
        if obj.fields.get("__complete__") is True:
            return False
        raise Unsupported("hasattr(%s, %r): not declared in the contract (field, or __hasattr__={%r: False})" % (obj.cls, name, name))
    if isinstance(obj, Opaque):
        if name in obj.attrs:
            return True
        if "hasattr" in obj.attrs:
            v = obj.attrs["hasattr"]
            if name in v:
                return v[name]
        if ("%s.%s" % (obj.tag, name)) in interp.pack.models:
            return True
        raise Unsupported("hasattr(%s, %r): not declared in the contract (attribute, or hasattr={%r: False})" % (obj.tag, name, name))
    if isinstance(obj, Closure):
        return name in ("__name__", "__code__", "__call__")
    if isinstance(obj, ModuleRef):
        h = interp.pack.models.get("hasattr:" + obj.dotted)
        if h:
            return h(interp, name)
    if kind_of(obj) == STR:
        return name in dir(str)
    if kind_of(obj) in (INT, BOOL):
        return name in dir(int)
    if obj is None:
        return name in dir(None)
    if isinstance(obj, (PyList, SList)):
        return name in dir(list)
    raise Unsupported("hasattr(%r, %r)" % (obj, name))


_MISSING = object()


def declared_absent(obj, name):
    """The contract says that this object does NOT have the attribute (Opaque: attrs['hasattr'][name] is False; SObj: fields['__hasattr__'])."""
    if isinstance(obj, SObj) and obj.fields.get("__complete__") is True:
        return True  # the object was built by running its real constructor: what was not assigned (and is not a class attribute) is absent
    h = obj.attrs.get("hasattr") if isinstance(obj, Opaque) else obj.fields.get("__hasattr__") if isinstance(obj, SObj) else None
    return isinstance(h, dict) and h.get(name) is False


def m_getattr(interp, args, kwargs):
    obj, name = args[0], args[1]
    if len(args) > 2:
        v = interp.getattr(obj, name, None, default=_MISSING)
        if v is _MISSING:
            # an attribute the contract does not mention is not thereby absent: taking the default silently would hide the branch in
            # which the real object has it (seeded change C12-code-check-remembered-per-wrapper: getattr(self.func, "__code__", None))
            if isinstance(obj, (Opaque, SObj)) and isinstance(name, str) and not declared_absent(obj, name):
                raise Unsupported("getattr(%s, %r, default): the contract does not say whether the object has this attribute (declare it, or hasattr={%r: False})"
                                  % (getattr(obj, "tag", getattr(obj, "cls", "?")), name, name))
            return args[2]
        return v
    return interp.getattr(obj, name, None)


def m_setattr(interp, args, kwargs):
    obj, name, v = args
    interp.setattr(obj, name, v)
    return None


def m_bool(interp, args, kwargs):
    return ops.mk_bool(ops.truth(args[0])) if args else False


def m_abs(interp, args, kwargs):
    v = args[0]
    if is_concrete(v):
        return abs(v)
    t = ops.as_num_term(v)
    return Sym(kind_of(v) if kind_of(v) != BOOL else INT, z3.If(t < 0, -t, t))


def m_iter(interp, args, kwargs):
    v = args[0]
    if isinstance(v, Opaque) and ("%s.__iter__" % v.tag) in interp.pack.models:
        return interp.pack.models["%s.__iter__" % v.tag](interp, v, [], {})
    return Opaque("iter", None, src=v, pos=0)


def m_next(interp, args, kwargs):
    it = args[0]
    if isinstance(it, Opaque) and it.tag == "iter" and isinstance(it.attrs["src"], SList):
        # next() on an iterator over a symbolic list: the element at the iterator's (concrete) position, if there is one
        src, p = it.attrs["src"], it.attrs["pos"]
        if interp.ctx.branch(src.length > p, "iterator-has-next"):
            it.attrs["pos"] = p + 1
            return src.get(z3.IntVal(p))
        if len(args) > 1:
            return args[1]
        interp.raise_("StopIteration")
    if isinstance(it, Opaque) and it.tag == "iter":
        items = interp.pack.for_items(interp, it.attrs["src"], None)
        p = it.attrs["pos"]
        if p < len(items):
            it.attrs["pos"] = p + 1
            return items[p]
        if len(args) > 1:
            return args[1]
        interp.raise_("StopIteration")
    if isinstance(it, Opaque) and ("%s.__next__" % it.tag) in interp.pack.models:
        return interp.pack.models["%s.__next__" % it.tag](interp, it, args[1:], {})
    if isinstance(it, GenExp):
        h = interp.pack.models.get("next:genexp")
        if h:
            return h(interp, it, args[1:])
    raise Unsupported("next(%r)" % (it,))


def m_sorted(interp, args, kwargs):
    src = args[0]
    items = interp.pack.for_items(interp, src, None)
    if all(is_concrete(x) or (isinstance(x, tuple) and is_concrete(x[0])) for x in items) and "key" not in kwargs:
        try:
            return PyList(sorted(items, key=lambda x: x[0] if isinstance(x, tuple) and not is_concrete(x) else x))
        except TypeError:
            interp.raise_("TypeError")
    raise Unsupported("sorted() of symbolic items")


def m_id(interp, args, kwargs):
    v = args[0]
    key = "id:%d" % id(v)
    g = interp.ctx.ghost
    if key not in g:
        g[key] = INT.fresh(interp.ctx, "id")
    return g[key]


def m_type(interp, args, kwargs):
    v = args[0]
    if isinstance(v, SObj):
        return ClassRef(v.cls)
    if isinstance(v, SExc):
        return v.cls
    if isinstance(v, bool) or kind_of(v) == BOOL:
        return TypeRef("bool")
    k = kind_of(v)
    for kk, nm in ((INT, "int"), (REAL, "float"), (STR, "str"), (BYTES, "bytes")):
        if k == kk:
            return TypeRef(nm)
    if v is None:
        return TypeRef("NoneType")
    if isinstance(v, tuple):
        return TypeRef("tuple")
    if isinstance(v, (PyList, SList)):
        return TypeRef("list")
    if isinstance(v, (PyDict, SDict)):
        return TypeRef("dict")
    return Opaque("type", None, of=v)


def m_repr(interp, args, kwargs):
    return STR.fresh(interp.ctx, "repr")


def m_attrgetter(interp, args, kwargs):
    return AttrGetter(args[0])


def install(pack):
    m = pack.models
    m["builtin:isinstance"] = m_isinstance
    m["builtin:len"] = m_len
    m["builtin:max"] = lambda i, a, k: _minmax(i, a, k, True)
    m["builtin:min"] = lambda i, a, k: _minmax(i, a, k, False)
    m["builtin:sum"] = m_sum
    m["builtin:any"] = m_anyall(True)
    m["builtin:all"] = m_anyall(False)
    m["builtin:int"] = m_int
    m["builtin:str"] = m_str
    m["builtin:list"] = m_list
    m["builtin:tuple"] = m_tuple

    def m_set(interp, args, kwargs):
        # set() / frozenset(): only the empty set and sets of concrete members (sets are immutable values here: .add is not modelled)
        if not args:
            return frozenset()
        src = args[0]
        items = list(src) if isinstance(src, (tuple, frozenset)) else list(src.items) if isinstance(src, PyList) else None
        if items is None or not all(is_concrete(x) for x in items):
            raise Unsupported("set() of %r" % (src,))
        return frozenset(items)

    m["builtin:set"] = m_set
    m["builtin:frozenset"] = m_set
    m["builtin:dict"] = m_dict
    m["builtin:range"] = m_range
    m["builtin:enumerate"] = m_enumerate
    m["builtin:hasattr"] = m_hasattr
    m["builtin:getattr"] = m_getattr
    m["builtin:setattr"] = m_setattr
    m["builtin:bool"] = m_bool
    m["builtin:abs"] = m_abs
    m["builtin:iter"] = m_iter
    m["builtin:next"] = m_next
    m["builtin:sorted"] = m_sorted
    m["builtin:id"] = m_id
    m["builtin:type"] = m_type
    m["builtin:repr"] = m_repr
    m["operator.attrgetter"] = m_attrgetter
    m["builtin:print"] = lambda i, a, k: None


# ------------------------------------------------------------------------------------------
# container methods
# ------------------------------------------------------------------------------------------
def container_method(pack, interp, recv, name, args, kwargs, node):
    ctx = interp.ctx
    if isinstance(recv, PyList):
        L = recv.items
        if name == "append":
            L.append(args[0])
            return None
        if name == "extend":
            L.extend(pack.for_items(interp, args[0], node))
            return None
        if name == "pop":
            if not L:
                interp.raise_("IndexError")
            return L.pop(*args)
        if name == "copy":
            return PyList(L)
        if name == "__setitem__":
            i = args[0]
            if isinstance(i, int) and -len(L) <= i < len(L):
                L[i] = args[1]
                return None
            if isinstance(i, int):
                interp.raise_("IndexError")
        if name == "insert" and isinstance(args[0], int):
            L.insert(args[0], args[1])
            return None
        if name == "index":
            for j, x in enumerate(L):
                if interp.ctx.branch(ops.equal(x, args[0]), "index"):
                    return j
            interp.raise_("ValueError")
        if name == "sort" and not kwargs and all(is_concrete(x) for x in L):
            L.sort()
            return None
    if isinstance(recv, SList):
        if name == "append":
            recv.arr = z3.Store(recv.arr, recv.length, to_term(args[0]))
            recv.length = recv.length + 1
            return None
        if name == "__setitem__":
            it = ops.as_int_term(args[0])
            if ctx.branch(z3.Or(it >= recv.length, it < -recv.length), "index-out-of-range"):
                interp.raise_("IndexError")
            recv.arr = z3.Store(recv.arr, z3.If(it < 0, it + recv.length, it), to_term(args[1]))
            return None
        if name == "sort":
            h = pack.models.get("SList.sort")
            if h:
                return h(interp, recv, args, kwargs)
        if name == "copy":
            return recv.clone()
    if isinstance(recv, PyDict):
        d = recv.d
        if name == "get":
            k = args[0]
            default = args[1] if len(args) > 1 else None
            if is_concrete(k):
                return d.get(k, default)
            keys = list(d)
            feas = [ops.equal(k, x) for x in keys]
            feas = [z3.BoolVal(f) if isinstance(f, bool) else f for f in feas]
            none = z3.Not(z3.Or(*feas)) if feas else z3.BoolVal(True)
            j = ctx.choose(len(keys) + 1, "get", feasible=feas + [none])
            return default if j == len(keys) else d[keys[j]]
        if name == "items":
            return Opaque("dict_items", None, d=recv)
        if name == "values":
            return Opaque("dict_values", None, d=recv)
        if name == "keys":
            return Opaque("dict_keys", None, d=recv)
        if name == "copy":
            return PyDict(d)
        if name == "update":
            src = args[0] if args else PyDict({})
            if isinstance(src, PyDict):
                d.update(src.d)
            else:
                for k, v in pack.for_items(interp, src, node):
                    d[k] = v
            d.update(kwargs)
            return None
        if name == "__setitem__":
            k = args[0]
            if not is_concrete(k) and not isinstance(k, Opaque):  # (an opaque object is a key by identity, like any Python object without __eq__)
                raise Unsupported("symbolic key stored into a concrete-shaped dict")
            d[k] = args[1]
            return None
        if name == "pop":
            k = args[0]
            if is_concrete(k):
                if k in d:
                    return d.pop(k)
                if len(args) > 1:
                    return args[1]
                interp.raise_("KeyError")
        if name == "__delitem__":
            k = args[0]
            if is_concrete(k):
                if k in d:
                    del d[k]
                    return None
                interp.raise_("KeyError")
        if name == "setdefault" and is_concrete(args[0]):
            return d.setdefault(args[0], args[1] if len(args) > 1 else None)
    if isinstance(recv, SDict):
        if name == "__setitem__":
            kt = to_term(args[0])
            recv.dom = z3.Store(recv.dom, kt, z3.BoolVal(True))
            recv.arr = z3.Store(recv.arr, kt, to_term(args[1]))
            return None
        if name == "get":
            kt = to_term(args[0])
            if ctx.branch(z3.Select(recv.dom, kt), "get-present"):
                return recv.v.wrap(z3.Select(recv.arr, kt))
            return args[1] if len(args) > 1 else None
        if name in ("pop", "__delitem__"):
            kt = to_term(args[0])
            if ctx.branch(z3.Select(recv.dom, kt), "pop-present"):
                v = recv.v.wrap(z3.Select(recv.arr, kt))
                recv.dom = z3.Store(recv.dom, kt, z3.BoolVal(False))
                return v
            if name == "pop" and len(args) > 1:
                return args[1]
            interp.raise_("KeyError")
        if name == "copy":
            return recv.clone()
    k = kind_of(recv)
    if k in (STR, BYTES) and ("%s.%s" % (k.name, name)) in pack.models and not (is_concrete(recv) and all(is_concrete(a) for a in args)):
        return pack.models["%s.%s" % (k.name, name)](interp, recv, args, kwargs)
    if k in (STR, BYTES):
        if is_concrete(recv) and all(is_concrete(a) for a in args) and name in (
                "startswith", "endswith", "strip", "lower", "upper", "replace", "split", "encode", "decode", "format",
                "rstrip", "lstrip", "join"):
            try:
                r = getattr(recv, name)(*args, **kwargs)
            except Exception as e:  # noqa
                interp.raise_(type(e).__name__)
            return PyList(r) if isinstance(r, list) else r
        if name == "startswith":
            return ops.mk_bool(z3.PrefixOf(to_term(args[0]), to_term(recv)))
        if name == "endswith":
            return ops.mk_bool(z3.SuffixOf(to_term(args[0]), to_term(recv)))
        if name == "join":
            src = args[0]
            if isinstance(src, PyList) and is_concrete(recv) and all(isinstance(x, type(recv)) for x in src.items):
                return recv.join(src.items)  # concrete separator and parts
            if isinstance(src, PyList):
                if not src.items:
                    return recv
                if is_concrete(recv) and len(recv) == 0:
                    t = None
                    for x in src.items:
                        t = to_term(x) if t is None else z3.Concat(t, to_term(x))
                    return Sym(k, t)
            h = pack.models.get("join")
            if h:
                return h(interp, recv, src)
        if name == "format":
            return STR.fresh(ctx, "fmt")
        if name in ("encode", "decode"):
            h = pack.models.get("%s.%s" % (k.name, name))
            if h:
                return h(interp, recv, args, kwargs)
            return (BYTES if name == "encode" else STR).fresh(ctx, name)
        h = pack.models.get("%s.%s" % (k.name, name))
        if h:
            return h(interp, recv, args, kwargs)
    if isinstance(recv, Sym) and isinstance(recv.kind, (Atom, Rec)):
        h = pack.models.get("%s.%s" % (recv.kind.name, name))
        if h:
            return h(interp, recv, args, kwargs)
    if isinstance(recv, (tuple, frozenset)) and name in ("count", "index"):
        raise Unsupported("tuple.%s" % name)
    raise Unsupported("method %s of %r" % (name, recv))
