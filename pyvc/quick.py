"""Developer driver: run the contracts of one pack and print a summary."""
import importlib
import sys
import time

from .runner import FunctionRun


def main():
    modname = sys.argv[1]
    only = sys.argv[2:] 
    mod = importlib.import_module("contracts." + modname)
    pack = mod.build()
    for key, c in pack.contracts.items():
        if c.assumed:
            continue
        if only and not any(o in c.qualname for o in only):
            continue
        t = time.time()
        run = FunctionRun(pack, c, jobs=int(__import__('os').environ.get('PYVC_JOBS','16'))).run()
        by = run.summary()
        n = sum(len(v) for v in by.values())
        bad = [(k, r) for k, v in by.items() for r in v if r.status != "discharged"]
        print("== %s%s: status=%s paths=%d completed=%d obligations=%d bad=%d canary=%s outcomes=%s  %.2fs" % (
            c.qualname, "[%s]" % c.variant if c.variant else "", run.status, run.paths, run.completed_paths, n, len(bad), run.canary_ok, run.outcomes, time.time() - t))
        dead = sorted(x for x in run.called if x.endswith("/return") and ("call:" + x) not in run.covered)
        if dead:
            print("    VACUOUS modular calls (contract never satisfiable at the call site):", dead)
        if run.message:
            lines = run.message.splitlines()
            print("   ", lines[0])
            for l in lines[-7:]:
                print("      ", l[:200])
        seen = set()
        for k, r in bad:
            if k in seen or len(seen) > 8:
                continue
            seen.add(k)
            print("   ", r.status, k, "|", r.detail[:300])
            if r.model:
                print("       model:", {a: b for a, b in list(r.model.items())[:25]})
        slow = sorted(run.results, key=lambda r: -r.time_s)[:5]
        print("    slowest:", [(r.name.split("/",1)[-1], round(r.time_s,2), r.backend) for r in slow])
        names = sorted(by)
        print("    obligations:", ", ".join("%s×%d" % (k.split("/", 1)[-1], len(by[k])) for k in names))


if __name__ == "__main__":
    main()
