"""Contract DSL used by the sidecar files under /verif/contracts/."""
import ast
import hashlib
import os

from .values import Unsupported

REPO = os.environ.get("PYVC_REPO", "/repo")


class Loop:
    def __init__(self, header, invariant=None, decreases=None, kinds=None, havoc=None, note="", lemmas=None):
        self.header = header  # unparsed loop header text (anchor)
        self.invariant = dict(invariant or {})  # name -> spec string
        self.decreases = decreases  # spec string (Int) or None
        self.kinds = dict(kinds or {})  # var -> Kind for havoc of untyped vars
        self.havoc = list(havoc or [])  # extra lvalues ("self._pos") modified through callees
        self.note = note
        # proved-then-assumed stepping stones at the start of the loop body (after the loop variable is bound)
        self.lemmas = dict(lemmas or {})


class Contract:
    """Contract of one repository function / method.

    params   name -> Kind (symbolic input) or concrete value; `self` for methods
    requires list of spec strings (assumed at entry / asserted at call sites)
    ensures  name -> spec string over params, old(...), result
    exsures  ExcName -> {name: spec string}  exceptions that may escape, with postconditions
             (any other escaping exception is a failed obligation `no-unexpected-exception`)
    modifies lvalue strings havocked at call sites
    returns  Kind (or callable(ctx, args)->value) of the result at call sites
    """

    def __init__(self, file, qualname, props=(), params=None, requires=(), ensures=None, exsures=None,
                 modifies=(), returns=None, loops=None, calls=None, inline=(), globals=None, setup=None,
                 ghost=None, generator=False, closes=False, assumed=False, note="", old=(), locks=None,
                 cases=None, at_exit=None, exc_kinds=None, variant="", ensures_body=None):
        self.file, self.qualname, self.props = file, qualname, tuple(props)
        self.params = dict(params or {})
        self.requires = list(requires)
        self.ensures = dict(ensures or {})
        self.exsures = dict(exsures or {})
        self.modifies = list(modifies)
        self.returns = returns
        self.loops = dict(loops or {})
        self.calls = dict(calls or {})
        self.inline = set(inline)
        self.globals = dict(globals or {})
        self.setup = setup
        self.ghost = dict(ghost or {})
        self.generator = generator
        self.closes = closes
        self.assumed = assumed  # contract used at call sites only, body not verified (trusted)
        self.note = note
        self.locks = locks
        self.cases = cases
        self.at_exit = at_exit
        self.exc_kinds = exc_kinds or {}
        self.variant = variant
        # clauses about the execution trace of the body itself: checked on the body, not assumed at call sites
        self.ensures_body = dict(ensures_body or {})

    @property
    def name(self):
        return self.qualname.split(".")[-1]

    @property
    def cls(self):
        parts = self.qualname.split(".")
        return parts[-2] if len(parts) > 1 else None


class SourceModule:
    """A repository file parsed on every run."""

    _cache = {}

    def __init__(self, relpath):
        self.relpath = relpath
        path = os.path.join(REPO, relpath)
        with open(path, "r", encoding="utf-8") as f:
            self.text = f.read()
        self.tree = ast.parse(self.text, filename=path)
        self.funcs = {}
        self.classes = {}
        self.consts = {}
        self.imports = {}
        self._index(self.tree.body, "")

    @classmethod
    def get(cls, relpath):
        key = (REPO, relpath)
        if key not in cls._cache:
            cls._cache[key] = SourceModule(relpath)
        return cls._cache[key]

    def _index(self, body, prefix):
        for node in body:
            if isinstance(node, (ast.FunctionDef, ast.AsyncFunctionDef)):
                self.funcs[prefix + node.name] = node
                self._index_nested(node, prefix + node.name + ".")
            elif isinstance(node, ast.ClassDef):
                if not prefix:
                    self.classes[node.name] = node
                self._index(node.body, prefix + node.name + ".")
            elif isinstance(node, ast.Assign) and not prefix:
                for t in node.targets:
                    if isinstance(t, ast.Name):
                        self.consts[t.id] = node.value
            elif isinstance(node, ast.Assign) and prefix:
                for t in node.targets:
                    if isinstance(t, ast.Name):
                        self.consts[prefix + t.id] = node.value
            elif isinstance(node, (ast.Import, ast.ImportFrom)) and not prefix:
                self._imports(node)
            elif isinstance(node, (ast.If, ast.Try)) and not prefix:
                # module-level conditional definitions: index all arms (first definition wins)
                for sub in ast.iter_child_nodes(node):
                    if isinstance(sub, list):
                        continue
                for field in ("body", "orelse", "finalbody"):
                    self._index_keep(getattr(node, field, []), prefix)
                for h in getattr(node, "handlers", []):
                    self._index_keep(h.body, prefix)

    def _index_keep(self, body, prefix):
        saved_f, saved_c, saved_k, saved_i = dict(self.funcs), dict(self.classes), dict(self.consts), dict(self.imports)
        self._index(body, prefix)
        for d, s in ((self.funcs, saved_f), (self.classes, saved_c), (self.consts, saved_k), (self.imports, saved_i)):
            d.update(s)

    def _index_nested(self, fnode, prefix):
        for node in ast.walk(fnode):
            if node is fnode:
                continue
            if isinstance(node, (ast.FunctionDef, ast.AsyncFunctionDef)):
                self.funcs.setdefault(prefix + node.name, node)

    def _imports(self, node):
        if isinstance(node, ast.Import):
            for a in node.names:
                self.imports[a.asname or a.name.split(".")[0]] = a.name if a.asname else a.name.split(".")[0]
        else:
            base = ("." * node.level) + (node.module or "")
            for a in node.names:
                self.imports[a.asname or a.name] = base + "." + a.name

    def func(self, qualname):
        if qualname not in self.funcs:
            r = self.resolve_method(qualname)
            if r is not None:
                return self.funcs[r]
            raise Unsupported("function %s not found in %s (anchor lost)" % (qualname, self.relpath))
        return self.funcs[qualname]

    def resolve_method(self, qualname):
        """'Cls.meth' where Cls inherits meth: the definition Python's method resolution finds among the classes of this module
        (depth-first, left to right - enough for the single-inheritance-plus-mixins hierarchies met here)."""
        parts = qualname.split(".")
        if len(parts) != 2 or parts[0] not in self.classes:
            return None
        seen = set()

        def walk(cname):
            if cname in seen or cname not in self.classes:
                return None
            seen.add(cname)
            if "%s.%s" % (cname, parts[1]) in self.funcs:
                return "%s.%s" % (cname, parts[1])
            for b in self.class_bases(cname):
                r = walk(b)
                if r is not None:
                    return r
            return None

        return walk(parts[0])

    def segment_sha(self, node):
        seg = ast.get_source_segment(self.text, node) or ast.unparse(node)
        return hashlib.sha256(seg.encode()).hexdigest()[:16]

    def class_bases(self, name):
        c = self.classes.get(name)
        if c is None:
            return []
        return [ast.unparse(b).split(".")[-1] for b in c.bases]


def loops_of(fnode):
    """Loops of a function in source order (pre-order), not descending into nested defs."""
    out = []

    def visit(n):
        for c in ast.iter_child_nodes(n):
            if isinstance(c, (ast.FunctionDef, ast.AsyncFunctionDef, ast.Lambda, ast.ClassDef)):
                continue
            if isinstance(c, (ast.For, ast.While)):
                out.append(c)
            visit(c)

    visit(fnode)
    return out


def loop_header(node):
    if isinstance(node, ast.While):
        return "while " + ast.unparse(node.test)
    return "for %s in %s" % (ast.unparse(node.target), ast.unparse(node.iter))
