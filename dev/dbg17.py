import sys
sys.path.insert(0,'/verif')
import pyvc.interp as I
from pyvc.values import Alternatives
import contracts.c17 as c17
from pyvc.runner import FunctionRun
pack=c17.build()
c=[c for k,c in pack.contracts.items() if getattr(c,'variant','')=='n_jobs-with-hints'][0]
orig=I.Interp.spec
def spec(self, text, env):
    r=orig(self,text,env)
    if 'result' in env.extra and isinstance(env.extra.get('result'), tuple) and r is False:
        print("FALSE:", text[:100], "| cfg n_jobs:", env.extra['result'][1].d['n_jobs'], type(env.extra['result'][0]).__name__, getattr(env.extra['result'][0],'cls',''))
    return r
I.Interp.spec=spec
run=FunctionRun(pack,c,jobs=1)
run.worklist=[[]]
run.run()
print(run.status, run.paths, run.message[:300])
print("----")
import pyvc.runner as R
of=R.FunctionRun.finish
def fin(self, interp, env, outcome, val):
    s=env.lookup('self')
    print("FIN n_jobs=",s.fields.get('n_jobs'), "ret cfg n_jobs=", interp.ctx.ghost['ret__get_active_backend'][1].d['n_jobs'], "TL0", (interp.ctx.ghost['TL0'].attrs.get('config') or {}) and interp.ctx.ghost['TL0'].attrs['config'].d['n_jobs'], 'prefer', env.lookup('prefer'), 'req', env.lookup('require'))
    return of(self, interp, env, outcome, val)
R.FunctionRun.finish=fin
I.Interp.spec=orig
run=FunctionRun(pack,c,jobs=1); run.worklist=[[]]; run.run()
