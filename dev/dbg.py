import sys, time
sys.path.insert(0,'/verif')
import pyvc.ctx as C
orig = C.Ctx.check
def chk(self, name, goal, detail=""):
    t=time.time(); r=orig(self,name,goal,detail); dt=time.time()-t
    if dt>0.5: print("SLOW check", name, round(dt,2), self.notes[-6:], flush=True)
    return r
C.Ctx.check=chk
origs=C.Ctx._sat
def sat(self, term):
    t=time.time(); r=origs(self,term); dt=time.time()-t
    if dt>0.5: print("SLOW sat", round(dt,2), r, flush=True)
    return r
C.Ctx._sat=sat
from pyvc.quick import main
sys.argv=['x']+sys.argv[1:]
main()
