#!/bin/bash
# usage: dev/mutcheck.sh <PROP> <file-relative-to-repo> <from> <to>   -- runs ./check against a mutated scratch copy
D=/tmp/pyvc_mut_$$
rm -rf $D; mkdir -p $D; cp -r /repo/joblib $D/joblib
python3 - "$D/$2" "$3" "$4" <<'PY'
import sys
p,a,b=sys.argv[1:4]
s=open(p).read()
n=s.count(a)
if n!=1: print("MUTATION ANCHOR COUNT",n); sys.exit(3)
open(p,'w').write(s.replace(a,b))
PY
[ $? -eq 0 ] || { rm -rf $D; exit 3; }
cd /verif && PYVC_REPO=$D ./check $1 2>&1 | grep -v conda | cut -c1-300
echo "exit=${PIPESTATUS[0]}"
rm -rf $D
git -C /verif checkout -- evidence 2>/dev/null
