import sys
sys.path.insert(0,'/verif')
import contracts.c07 as c
from pyvc.runner import FunctionRun
pack=c.build()
ct=list(pack.contracts.values())[0]
run=FunctionRun(pack,ct,jobs=1).run()
for r in run.results:
    if 'no-unexpected' in r.name: print(r.status, r.backend, r.detail[:200], r.path[-6:])
print(run.outcomes)
