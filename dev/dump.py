import sys, time
sys.path.insert(0,'/verif')
import z3
import pyvc.ctx as C
n=[0]
origs=C.Ctx._sat
def sat(self, term):
    t=time.time(); r=origs(self,term); dt=time.time()-t
    if dt>0.5 and n[0]<1:
        n[0]+=1
        self.fsolver.push(); self.fsolver.add(term)
        open('/verif/dev/slow_sat.smt2','w').write(self.fsolver.to_smt2()); self.fsolver.pop()
        print("dumped sat", r, self.fsolver.reason_unknown())
    return r
C.Ctx._sat=sat
m=[0]
orig = C.Ctx.check
def chk(self, name, goal, detail=""):
    if False:
        self.solver.push(); self.solver.add(z3.Not(goal))
        t=time.time(); r=self.solver.check(); dt=time.time()-t
        if dt>1:
            m[0]+=1
            open('/verif/dev/slow_chk.smt2','w').write(self.solver.to_smt2())
            print("dumped chk", r, dt, self.solver.reason_unknown())
            self.solver.pop()
            sys.exit(0)
        self.solver.pop()
    return orig(self,name,goal,detail)
C.Ctx.check=chk
from pyvc.quick import main
sys.argv=['x']+sys.argv[1:]
main()
