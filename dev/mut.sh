#!/bin/bash
# usage: dev/mut.sh <pack> <file-relative-to-repo> <python-regex-from> <to> [filter]
set -e
D=/tmp/pyvc_mut
rm -rf $D; mkdir -p $D; cp -r /repo/joblib $D/joblib
python3 - "$D/$2" "$3" "$4" <<'PY'
import sys,re
p,a,b=sys.argv[1:4]
s=open(p).read()
n=s.count(a)
if n!=1: print("MUTATION ANCHOR COUNT",n); sys.exit(3)
open(p,'w').write(s.replace(a,b))
PY
cd /verif && PYVC_REPO=$D timeout 900 python3-vt -m pyvc.quick $1 $5 2>&1 | grep -v conda | grep -v "obligations:\|slowest" | head -${LINES_MAX:-14}
rm -rf $D
