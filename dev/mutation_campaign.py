"""Mechanical mutation campaign (development aid, not part of any registered check).

For each mutant of a function under contract: scratch copy of joblib under /tmp, the relevant upstream test modules must still pass
(otherwise the mutant is uninteresting: the existing tests already catch it), then the quick checks of the listed properties run against
the scratch copy (PYVC_REPO).  Output: one JSON line per mutant {file, line, mutation, tests, checks: {prop: exit}} and a summary;
mutants that pass the tests and every check are the ones to look at by hand (equivalent mutants, or holes).

usage: mutation_campaign.py <target-key> [max-mutants] [workers]
"""
import ast
import copy
import json
import os
import random
import shutil
import subprocess
import sys
import tempfile
from concurrent.futures import ThreadPoolExecutor

TARGETS = {
    # key: (file, [function qualnames or None for all], test modules, properties, python)
    "filter_args": ("joblib/func_inspect.py", ["filter_args"], ["joblib/test/test_func_inspect.py", "joblib/test/test_memory.py"], ["C07"], "/venv/bin/python"),
    "hashing": ("joblib/hashing.py", ["Hasher.save", "Hasher.memoize", "Hasher._batch_setitems", "Hasher.save_set", "_ConsistentSet.__init__", "hash", "Hasher.hash", "Hasher.__init__"],
                ["joblib/test/test_hashing.py", "joblib/test/test_memory.py"], ["C08"], "/venv/bin/python"),
    "memory": ("joblib/memory.py", ["MemorizedFunc._cached_call", "MemorizedFunc._call", "MemorizedFunc._is_in_cache_and_valid", "MemorizedFunc._check_previous_func_code",
                                    "MemorizedFunc._write_func_code", "MemorizedFunc.clear", "MemorizedFunc.call", "MemorizedFunc.check_call_in_cache", "MemorizedFunc._get_args_id",
                                    "MemorizedFunc._hash_func", "MemorizedFunc.func_code_info", "extract_first_line", "MemorizedResult.get", "Memory.cache", "Memory.reduce_size",
                                    "MemorizedFunc.__init__", "expires_after"],
               ["joblib/test/test_memory.py"], ["C02", "C05", "C06", "C12"], "/venv/bin/python"),
    "store": ("joblib/_store_backends.py", None, ["joblib/test/test_memory.py", "joblib/test/test_store_backends.py"], ["C05", "C11", "C18"], "/venv/bin/python"),
    "disk": ("joblib/disk.py", ["memstr_to_bytes", "mkdirp"], ["joblib/test/test_disk.py", "joblib/test/test_memory.py"], ["C18", "C11"], "/venv/bin/python"),
    "compressor": ("joblib/compressor.py", None, ["joblib/test/test_numpy_pickle.py", "joblib/test/test_numpy_pickle_utils.py"], ["C13", "C14", "C03"], "/verif/.venv_np/bin/python"),
    "numpy_pickle": ("joblib/numpy_pickle.py", None, ["joblib/test/test_numpy_pickle.py", "joblib/test/test_memmapping.py"], ["C19", "C03", "C14"], "/verif/.venv_np/bin/python"),
    "numpy_pickle_utils": ("joblib/numpy_pickle_utils.py", None, ["joblib/test/test_numpy_pickle.py", "joblib/test/test_numpy_pickle_utils.py"], ["C03", "C19", "C14"], "/verif/.venv_np/bin/python"),
    "tracker": ("joblib/externals/loky/backend/resource_tracker.py", ["main"], ["joblib/test/test_memmapping.py"], ["C20"], "/verif/.venv_np/bin/python"),
    "reducer": ("joblib/_memmapping_reducer.py", None, ["joblib/test/test_memmapping.py"], ["C19", "C20"], "/verif/.venv_np/bin/python"),
    "config": ("joblib/parallel.py", ["_get_active_backend", "_get_config_param", "parallel_config.__init__", "parallel_config.unregister", "parallel_config.__exit__"],
               ["joblib/test/test_config.py"], ["C17"], "/venv/bin/python"),
    "backends": ("joblib/_parallel_backends.py", None, ["joblib/test/test_parallel.py"], ["C15", "C04", "C01"], "/venv/bin/python"),
    "dispatch": ("joblib/parallel.py", ["Parallel.dispatch_one_batch", "Parallel.dispatch_next", "Parallel._start", "Parallel._dispatch", "Parallel._retrieve", "Parallel._get_outputs",
                                        "Parallel._abort", "Parallel._terminate_and_reset", "Parallel.__call__", "Parallel._call", "BatchCompletionCallBack.__call__",
                                        "BatchCompletionCallBack._register_outcome", "BatchCompletionCallBack.get_status", "BatchCompletionCallBack.get_result",
                                        "BatchCompletionCallBack._retrieve_result", "BatchCompletionCallBack._dispatch_new", "Parallel._wait_retrieval", "Parallel._raise_error_fast",
                                        "Parallel._get_sequential_output", "BatchedCalls.__call__", "Parallel._register_new_job"],
                 ["joblib/test/test_parallel.py"], ["C01", "C04", "C09", "C16"], "/venv/bin/python"),
}
KNOWN_4 = ["--deselect", "joblib/test/test_numpy_pickle.py::test_compress_mmap_mode_warning", "--deselect", "joblib/test/test_numpy_pickle.py::test_joblib_pickle_across_python_versions",
           "--deselect", "joblib/test/test_numpy_pickle.py::test_file_handle_persistence_compressed_mmap", "--deselect", "joblib/test/test_numpy_pickle.py::test_file_handle_persistence_in_memory_mmap"]

CMP = {ast.Lt: ast.LtE, ast.LtE: ast.Lt, ast.Gt: ast.GtE, ast.GtE: ast.Gt, ast.Eq: ast.NotEq, ast.NotEq: ast.Eq, ast.Is: ast.IsNot, ast.IsNot: ast.Is, ast.In: ast.NotIn, ast.NotIn: ast.In}


def functions(tree, wanted):
    out = []
    for node in tree.body:
        if isinstance(node, (ast.FunctionDef, ast.AsyncFunctionDef)):
            if wanted is None or node.name in wanted:
                out.append((node.name, node))
        elif isinstance(node, ast.ClassDef):
            for sub in node.body:
                if isinstance(sub, (ast.FunctionDef, ast.AsyncFunctionDef)):
                    q = "%s.%s" % (node.name, sub.name)
                    if wanted is None or q in wanted:
                        out.append((q, sub))
    return out


def mutation_sites(fn):
    """(description, path-to-node function) pairs; the mutation is applied on a deep copy located by a counter."""
    sites = []
    counter = [0]
    for node in ast.walk(fn):
        if isinstance(node, ast.Compare) and len(node.ops) == 1 and type(node.ops[0]) in CMP:
            sites.append(("cmp", id(node), "line %d: %s -> %s" % (node.lineno, type(node.ops[0]).__name__, CMP[type(node.ops[0])].__name__)))
        elif isinstance(node, ast.BoolOp):
            sites.append(("boolop", id(node), "line %d: %s <-> %s" % (node.lineno, type(node.op).__name__, "Or" if isinstance(node.op, ast.And) else "And")))
        elif isinstance(node, ast.UnaryOp) and isinstance(node.op, ast.Not):
            sites.append(("not", id(node), "line %d: drop `not`" % node.lineno))
        elif isinstance(node, ast.Constant) and isinstance(node.value, bool):
            sites.append(("bool", id(node), "line %d: %r -> %r" % (node.lineno, node.value, not node.value)))
        elif isinstance(node, ast.Constant) and isinstance(node.value, int) and not isinstance(node.value, bool) and abs(node.value) < 1000:
            sites.append(("int", id(node), "line %d: %r -> %r" % (node.lineno, node.value, node.value + 1)))
        elif isinstance(node, ast.BinOp) and isinstance(node.op, (ast.Add, ast.Sub)):
            sites.append(("binop", id(node), "line %d: %s <-> %s" % (node.lineno, type(node.op).__name__, "Sub" if isinstance(node.op, ast.Add) else "Add")))
        elif isinstance(node, ast.If) and not node.orelse:
            sites.append(("if-true", id(node), "line %d: `if` condition forced to False (body skipped)" % node.lineno))
        elif isinstance(node, ast.Expr) and isinstance(node.value, ast.Call):
            sites.append(("drop-call", id(node), "line %d: statement `%s` removed" % (node.lineno, ast.unparse(node.value)[:60])))
        elif isinstance(node, ast.Assign) and len(node.targets) == 1 and isinstance(node.targets[0], ast.Attribute) and isinstance(node.value, ast.Constant):
            sites.append(("drop-assign", id(node), "line %d: statement `%s` removed" % (node.lineno, ast.unparse(node)[:60])))
    return sites


def apply(tree, fn_node, site):
    kind, nid, _ = site
    for node in ast.walk(fn_node):
        if id(node) != nid:
            continue
        if kind == "cmp":
            node.ops = [CMP[type(node.ops[0])]()]
        elif kind == "boolop":
            node.op = ast.Or() if isinstance(node.op, ast.And) else ast.And()
        elif kind == "not":
            node.op = ast.UAdd()  # +x keeps truthiness of bools/ints
            return ("replace-unary", node)
        elif kind == "bool":
            node.value = not node.value
        elif kind == "int":
            node.value = node.value + 1
        elif kind == "binop":
            node.op = ast.Sub() if isinstance(node.op, ast.Add) else ast.Add()
        elif kind == "if-true":
            node.test = ast.Constant(False)
        elif kind in ("drop-call", "drop-assign"):
            node.value = ast.Constant(None) if kind == "drop-call" else node.value
            if kind == "drop-assign":
                return ("to-pass", node)
        return None
    return None


def make_mutant(src, wanted, index, rnd):
    tree = ast.parse(src)
    fns = functions(tree, wanted)
    all_sites = []
    for q, fn in fns:
        for s in mutation_sites(fn):
            all_sites.append((q, fn, s))
    if not all_sites:
        return None
    rnd.shuffle(all_sites)
    if index >= len(all_sites):
        return None
    q, fn, site = all_sites[index]
    lines = src.splitlines(keepends=True)
    # apply on the AST, then splice ONLY the mutated function's text back (keeps the rest of the file byte-identical)
    special = apply(tree, fn, site)
    if special and special[0] == "replace-unary":
        n = special[1]
        # replace `not x` by `bool(x)` negated twice is the identity; we want to DROP the not: x
        for parent in ast.walk(fn):
            for field, value in ast.iter_fields(parent):
                if value is n:
                    setattr(parent, field, n.operand)
                elif isinstance(value, list) and n in value:
                    value[value.index(n)] = n.operand
    if special and special[0] == "to-pass":
        n = special[1]
        for parent in ast.walk(fn):
            for field, value in ast.iter_fields(parent):
                if isinstance(value, list) and n in value:
                    value[value.index(n)] = ast.Pass()
    ast.fix_missing_locations(tree)
    new_fn = ast.unparse(fn)
    indent = " " * fn.col_offset
    new_text = "".join(indent + l + "\n" for l in new_fn.splitlines())
    start = (fn.decorator_list[0].lineno if fn.decorator_list else fn.lineno) - 1
    mutated = "".join(lines[:start]) + new_text + "".join(lines[fn.end_lineno:])
    try:
        ast.parse(mutated)
    except SyntaxError:
        return None
    return q, site[2], mutated


def run_one(key, idx, seed):
    file, wanted, tests, props, py = TARGETS[key]
    src = open(os.path.join("/repo", file)).read()
    m = make_mutant(src, wanted, idx, random.Random(seed))
    if m is None:
        return None
    q, desc, mutated = m
    if mutated == src:
        return None
    scratch = tempfile.mkdtemp(prefix="pyvc_mut_%s_%d_" % (key, idx))
    try:
        shutil.copytree("/repo/joblib", os.path.join(scratch, "joblib"))
        for extra in ("conftest.py", "pyproject.toml", "setup.cfg"):
            if os.path.exists(os.path.join("/repo", extra)):
                shutil.copy(os.path.join("/repo", extra), os.path.join(scratch, extra))
        with open(os.path.join(scratch, file), "w") as f:
            f.write(mutated)
        env = dict(os.environ, PYTHONPATH=scratch)
        cmd = [py, "-m", "pytest", "-q", "-x", "-p", "no:cacheprovider", "--timeout=600"] + list(tests)  # relative to cwd=scratch, so that --deselect ids match
        if "numpy_pickle" in " ".join(tests):
            cmd += KNOWN_4
        # own session: a mutant can leave processes behind (a resource tracker whose loop no longer ends at EOF wrote 146 GB of
        # tracebacks into pytest's captured-output file and filled the disk) - everything the test run started is killed afterwards
        import signal
        pr = subprocess.Popen(cmd, stdout=subprocess.DEVNULL, stderr=subprocess.DEVNULL, env=env, cwd=scratch, start_new_session=True)
        try:
            tests_ok = pr.wait(timeout=1500) == 0
        except subprocess.TimeoutExpired:
            tests_ok = False
        finally:
            try:
                os.killpg(pr.pid, signal.SIGKILL)
            except OSError:
                pass
            # children that started their own session (loky's tracker does not, multiprocessing helpers may): match by the scratch path
            for pid in os.listdir("/proc"):
                if pid.isdigit():
                    try:
                        if scratch.encode() in open("/proc/%s/environ" % pid, "rb").read():
                            os.kill(int(pid), signal.SIGKILL)
                    except OSError:
                        pass
        res = dict(target=key, function=q, mutation=desc, tests="pass" if tests_ok else "fail", checks={})
        if tests_ok:
            for p in props:
                cenv = dict(os.environ, PYVC_REPO=scratch, PYVC_NO_SELFTEST="1", PYVC_EVIDENCE_DIR=scratch, PYVC_JOBS="2", PYVC_NO_CONFORMANCE="1")
                try:
                    cr = subprocess.run(["/verif/check", p, "--tier", "quick"], capture_output=True, text=True, timeout=1500, env=cenv, cwd="/verif")
                    res["checks"][p] = cr.returncode
                except subprocess.TimeoutExpired:
                    res["checks"][p] = "timeout"
        return res
    finally:
        shutil.rmtree(scratch, ignore_errors=True)


def main():
    key = sys.argv[1]
    n = int(sys.argv[2]) if len(sys.argv) > 2 else 20
    workers = int(sys.argv[3]) if len(sys.argv) > 3 else 6
    seed = int(os.environ.get("MUT_SEED", "1"))
    out = []
    with ThreadPoolExecutor(workers) as ex:
        for r in ex.map(lambda i: run_one(key, i, seed), range(n)):
            if r is not None:
                print(json.dumps(r), flush=True)
                out.append(r)
    alive = [r for r in out if r["tests"] == "pass"]
    missed = [r for r in alive if all(v == 0 for v in r["checks"].values())]
    print(json.dumps(dict(summary=True, target=key, mutants=len(out), killed_by_tests=len(out) - len(alive), survive_tests=len(alive),
                          caught=sum(1 for r in alive if any(v == 1 for v in r["checks"].values())),
                          undecided_only=sum(1 for r in alive if not any(v == 1 for v in r["checks"].values()) and any(v == 2 for v in r["checks"].values())),
                          missed=len(missed))))


if __name__ == "__main__":
    main()
