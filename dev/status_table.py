"""Rewrites the block between <!-- STATUS-TABLE --> markers in DESIGN.md from evidence/*.json, known_findings.json and the registry
(run after all checks on the clean tree).  The 'decided by' column is kept from the existing table."""
import json
import os
import re
import sys

HERE = os.path.dirname(os.path.dirname(os.path.abspath(__file__)))
sys.path.insert(0, HERE)


def main():
    path = os.path.join(HERE, "DESIGN.md")
    s = open(path).read()
    a, b = s.index("<!-- STATUS-TABLE -->"), s.index("<!-- /STATUS-TABLE -->")
    old = s[a:b]
    decided = {}
    for line in old.splitlines():
        cells = [c.strip() for c in line.split("|")]
        if len(cells) > 5 and re.match(r"C\d\d$", cells[1]):
            decided[cells[1]] = cells[4]
    known = json.load(open(os.path.join(HERE, "known_findings.json")))
    rows = ["| id | functions under contract | obligations (quick) | decided by | bounded stand-ins | unchanged tree |", "|---|---|---|---|---|---|"]
    for n in range(1, 21):
        pid = "C%02d" % n
        ev = os.path.join(HERE, "evidence", pid + ".json")
        if not os.path.exists(ev):
            rows.append("| %s | — | — | not applicable | | |" % pid)
            continue
        e = json.load(open(ev))
        cov = e["coverage"]
        fns = cov.get("functions_under_contract", [])
        names = sorted({f["function"].split("::")[-1].split("[")[0] for f in fns})
        ks = sorted((k["id"] for k in known["findings"] if pid in k.get("properties", [])), key=lambda x: int(x[1:]))
        fixed = sum(1 for f in known["fixed"] if "property=%s " % pid in f)
        state = ("findings " + ", ".join(ks)) if ks else "holds"
        if fixed:
            state += "; %d fix commit%s" % (fixed, "s" if fixed > 1 else "")
        bounded = ", ".join(x.get("tool", "?") for x in cov.get("bounded_checks", []))
        rows.append("| %s | %d (%d contracts/variants) | %d | %s | %s | %s |" % (pid, len(names), len(fns), cov["obligations"], decided.get(pid, ""), bounded, state))
    s = s[:a] + "<!-- STATUS-TABLE -->\n" + "\n".join(rows) + "\n" + s[b:]
    open(path, "w").write(s)


if __name__ == "__main__":
    main()
