import sys, importlib
sys.path.insert(0, '/verif')
from pyvc.runner import FunctionRun
mod = importlib.import_module("contracts." + sys.argv[1])
pack = mod.build()
for key, c in pack.contracts.items():
    if c.assumed or (len(sys.argv) > 2 and sys.argv[2] not in c.qualname):
        continue
    run = FunctionRun(pack, c, jobs=16).run()
    print("==", c.qualname, run.status, run.message[:200])
    seen = {}
    for r in run.results:
        if r.status != "discharged":
            seen.setdefault((r.name, r.status), []).append(r)
    for (n, st), rs in seen.items():
        print("  ", st, n, "x%d" % len(rs), "|", rs[0].detail[-260:], "| t=%.1fs" % max(x.time_s for x in rs))
