"""Regenerate MANIFEST.json from contracts/registry.py (claimed properties) + not_applicable reasons."""
import json, sys, os
sys.path.insert(0, "/verif")
from contracts.registry import REGISTRY, NOT_APPLICABLE, MANIFEST_TEXT
props = [json.loads(l) for l in open("/verif/properties.jsonl")]
checks = []
for p in props:
    pid = p["id"]
    if pid not in REGISTRY:
        continue
    t = MANIFEST_TEXT[pid]
    checks.append({
        "property_id": pid,
        "quick_cmd": "./check %s --tier quick" % pid,
        "thorough_cmd": "./check %s --tier thorough" % pid,
        "evidence_file": "/verif/evidence/%s.json" % pid,
        "replay_cmd_template": "./check %s --replay {path}" % pid,
        "engine": "pyvc",
        "level_claimed": {"category": REGISTRY[pid].get("level", "proof"), "text": t["text"], "design_ref": t.get("design_ref", "DESIGN.md section 5 / %s" % pid)},
        "level_note": t["note"],
        "technique": t.get("technique", "contract-based deductive verification: sidecar contracts on the real functions, VCs generated from /repo's AST on every run, discharged by z3 (cvc5 second opinion)"),
    })
na = [{"property_id": p["id"], "reason": NOT_APPLICABLE.get(p["id"], "contracts for this property are not completed yet (work in progress); not claimed")} for p in props if p["id"] not in REGISTRY]
m = {
    "version": 1,
    "setup_cmd": "./setup.sh",
    "hooks": {"guard": "JOBLIB_VERIF", "enable": "no source hooks: the verifier reads /repo's source text; replay harnesses wrap functions from outside", 
              "baseline_off_cmd": "cd /repo && /venv/bin/python -m pytest -ra -q -p no:cacheprovider --timeout=900 --continue-on-collection-errors", "source_commits": [], "add_only": True},
    "engines": [{"name": "pyvc", "path": "/verif/pyvc", "serves_properties": sorted(REGISTRY), "kind_free_text": "home-grown VC generator / symbolic executor over the real Python AST (re-read from /repo on every run) with sidecar contracts, loop invariants, modular calls; back ends z3 4.x/5.1 (rlimit-bounded) and cvc5; native replay + bounded small-scope search under /venv/bin/python"}],
    "checks": checks,
    "not_applicable": na,
    "notes": "exit 0 held / 1 VIOLATION (+replay) / 2 UNDECIDED (unsupported construct, lost anchor, solver unknown without native counterexample) / 3 CHECKER-ERROR. Known findings: /verif/known_findings.json.",
}
json.dump(m, open("/verif/MANIFEST.json", "w"), indent=1)
print("claimed", [c["property_id"] for c in checks], "na", len(na))
