"""Bounded conformance of the ASSUMED contracts of standard-library functions that the packs rely on (contracts/*.py `assume_note`s).

Each test states the assumption as it is used by a pack and exercises the real library on small inputs.  exit 0: all hold; exit 1: an
assumption is refuted on this interpreter (then the proofs that use it prove nothing about this platform).  One JSON line."""
import functools
import gzip
import inspect
import io
import itertools
import json
import os
import pickle
import queue
import random
import subprocess
import sys
import tempfile
import zlib

FAILS = []


def check(name, ok, detail=""):
    if not ok:
        FAILS.append("%s: %s" % (name, detail))


def main():
    rnd = random.Random(0)
    # itertools.islice(it, n): the next <= n items, the rest stays; negative stop -> ValueError            (par2, par4)
    for total in range(0, 7):
        for n in range(0, 8):
            it = iter(range(total))
            got = list(itertools.islice(it, n))
            check("islice", got == list(range(min(n, total))) and list(it) == list(range(min(n, total), total)), (total, n))
    try:
        itertools.islice(iter([]), -1)
        check("islice-negative", False, "no ValueError")
    except ValueError:
        pass
    # queue.Queue: FIFO, get(block=False) raises Empty exactly when empty                                  (par2)
    q = queue.Queue()
    model = []
    for _ in range(200):
        if rnd.random() < 0.55:
            x = rnd.randint(0, 9)
            q.put(x)
            model.append(x)
        else:
            try:
                got = q.get(block=False)
                check("queue-fifo", model and got == model.pop(0), got)
            except queue.Empty:
                check("queue-empty", not model, model)
    # list.sort / sorted: stable ascending permutation                                                     (c18, common.sorted_perm)
    for _ in range(50):
        xs = [(rnd.randint(0, 3), i) for i in range(rnd.randint(0, 9))]
        ys = sorted(xs, key=lambda p: p[0])
        check("sorted-stable", sorted(ys) == sorted(xs) and all(a[0] < b[0] or (a[0] == b[0] and a[1] < b[1]) for a, b in zip(ys, ys[1:])), xs)
    # io.BufferedReader.peek(n): at least one byte unless at EOF, possibly fewer than n; never moves the position    (c03)
    with tempfile.NamedTemporaryFile(delete=False) as tf:
        tf.write(b"x" * (io.DEFAULT_BUFFER_SIZE + 10))
    try:
        with open(tf.name, "rb") as f:
            f.read(io.DEFAULT_BUFFER_SIZE - 2)
            pos = f.tell()
            p = f.peek(5)
            check("peek-short-allowed", 1 <= len(p), len(p))
            check("peek-position", f.tell() == pos, (pos, f.tell()))
            f.read()
            check("peek-eof", f.peek(5) == b"", f.peek(5))
    finally:
        os.unlink(tf.name)
    # zlib.decompressobj: once eof is set, bytes after the stream are in unused_data; feeding a truncated stream never sets eof     (c13)
    payload = bytes(rnd.getrandbits(8) for _ in range(3000))
    comp = zlib.compress(payload, 3)
    d = zlib.decompressobj()
    out = d.decompress(comp + b"TRAIL")
    check("zlib-eof-unused", d.eof and d.unused_data == b"TRAIL" and out == payload, (d.eof, d.unused_data))
    for cut in (1, len(comp) // 2, len(comp) - 1):
        d = zlib.decompressobj()
        part = d.decompress(comp[:cut])
        check("zlib-truncated", not d.eof and payload.startswith(part), cut)
    check("gzip-roundtrip", gzip.decompress(gzip.compress(payload, 3)) == payload)
    # os.replace: atomic rename onto an existing name; FileNotFoundError when the source is gone                  (store)
    dd = tempfile.mkdtemp()
    a, b = os.path.join(dd, "a"), os.path.join(dd, "b")
    open(a, "w").write("new")
    open(b, "w").write("old")
    os.replace(a, b)
    check("replace", open(b).read() == "new" and not os.path.exists(a))
    try:
        os.replace(a, b)
        check("replace-missing-src", False)
    except FileNotFoundError:
        pass
    # os.makedirs: FileExistsError (EEXIST) on an existing directory                                          (store)
    try:
        os.makedirs(dd)
        check("makedirs-exists", False)
    except FileExistsError:
        pass
    # os.listdir: exactly the children                                                                         (store)
    check("listdir", sorted(os.listdir(dd)) == ["b"], os.listdir(dd))
    import shutil
    shutil.rmtree(dd, ignore_errors=True)
    # inspect.signature: a bound method shows the parameters without the first one; __wrapped__ is followed        (c07, K15)
    class K:
        def m(self, a, /, b=2, *c, d, **e):
            pass
    check("signature-bound", list(inspect.signature(K().m).parameters) == ["a", "b", "c", "d", "e"] and list(inspect.signature(K.m).parameters)[0] == "self")

    def f3(a, b):
        pass

    @functools.wraps(f3)
    def w(scale, *args):
        pass
    check("signature-follows-wrapped", list(inspect.signature(w).parameters) == ["a", "b"])
    # functools.update_wrapper copies the function's __dict__ into the wrapper                                    (mem, structural)
    f3.marker = 7

    class W:
        pass
    obj = W()
    functools.update_wrapper(obj, f3)
    check("update_wrapper-dict", obj.marker == 7 and obj.__wrapped__ is f3)
    # pickle memoises by identity: one tuple object used twice vs two equal tuples give different streams          (c08, K8)
    t = tuple([1, 2])
    check("pickle-memo-identity", pickle.dumps([t, t], 2) != pickle.dumps([tuple([1, 2]), tuple([1, 2])], 2))
    # warnings.warn raises under -W error                                                                      (c20)
    pr = subprocess.run([sys.executable, "-W", "error", "-c", "import warnings\ntry:\n    warnings.warn('x')\n    print('printed')\nexcept UserWarning:\n    print('raised')"],
                        capture_output=True, text=True)
    check("warn-as-error", pr.stdout.strip() == "raised", pr.stdout)
    # int(): truncation toward zero on floats; ValueError on non-numeric strings                                 (models.m_int)
    check("int", int(-2.7) == -2 and int(2.7) == 2)
    try:
        int("x")
        check("int-valueerror", False)
    except ValueError:
        pass
    # float(s): the literal's value or ValueError (nothing else)                                                  (c18 memstr_to_bytes)
    from fractions import Fraction
    for lit in ("1", "0.5", "1e3", " 2 ", "-0", "1_0", "", "K", "1K", "0x10", "1,5", "٣"):
        try:
            v = float(lit)
            check("float-literal", abs(Fraction(v) - Fraction(lit.strip().replace("_", "")) if lit.strip()[:1] not in ("٣",) else 0) < Fraction(1, 10 ** 9), lit)
        except ValueError:
            pass
        except Exception as e:
            check("float-raises-only-valueerror", False, (lit, repr(e)))
    # floor division / modulo signs                                                                            (ops.floordiv_term)
    for x in range(-7, 8):
        for y in (-3, -1, 1, 2, 5):
            check("floordiv", x == (x // y) * y + x % y and (x % y == 0 or (x % y > 0) == (y > 0)), (x, y))
    print(json.dumps(dict(violation=bool(FAILS), cases=0, refuted=FAILS)))
    return 1 if FAILS else 0


if __name__ == "__main__":
    sys.exit(main())
