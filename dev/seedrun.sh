#!/bin/bash
# usage: dev/seedrun.sh <patch.diff> PROP [PROP...]
# applies a seeded change to /repo, runs the checks with the evidence redirected away from /verif/evidence (so that committed
# evidence is never the record of a run on a modified tree), and restores /repo
P=$(readlink -f "$1"); shift
export PYVC_EVIDENCE_DIR=/tmp/pyvc_seed_evidence
mkdir -p $PYVC_EVIDENCE_DIR
git -C /repo apply "$P" || { echo "patch does not apply"; exit 3; }
for c in "$@"; do
  /verif/check $c > /tmp/seedrun_$c.txt 2>&1; rc=$?
  echo "$(basename $(dirname $P)) $c exit=$rc $(grep -a 'tier=' /tmp/seedrun_$c.txt | cut -c1-120)"
  grep -a "VIOLATION\|UNDECIDED\|CHECKER" /tmp/seedrun_$c.txt | cut -c1-300
done
git -C /repo checkout -- .
git -C /repo status --short
