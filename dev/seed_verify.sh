#!/bin/bash
# usage: dev/seed_verify.sh <name> <PROP> <src-dir-with-patch.diff,demo.py,notes.txt> "<test modules>"
# confirms in a scratch worktree: demo fails with the change, passes without, listed tests pass with the change; then stores /verif/seeded/<name>/
set -u
NAME=$1; PROP=$2; SRC=$3; TESTS=$4
WT=/tmp/seedverify_$$
git -C /repo worktree add -q --detach $WT HEAD || exit 3
cd $WT; export JOBLIB_ROOT=$WT
PYTHONPATH=$WT timeout 600 ${PY:-/venv/bin/python} $SRC/demo.py >/tmp/sv_clean.log 2>&1; CLEAN=$?
git apply $SRC/patch.diff || { echo "patch does not apply"; cd /; git -C /repo worktree remove --force $WT; exit 3; }
PYTHONPATH=$WT timeout 600 ${PY:-/venv/bin/python} $SRC/demo.py >/tmp/sv_mut.log 2>&1; MUT=$?
TP="skipped"
if [ -n "$TESTS" ]; then
  PYTHONPATH=$WT timeout 3000 ${PY:-/venv/bin/python} -m pytest -q -p no:cacheprovider --timeout=900 $TESTS >/tmp/sv_tests.log 2>&1; TRC=$?
  TP=$(grep -aE "passed|failed" /tmp/sv_tests.log | grep -av DEBUG | tail -1 | sed 's/\x1b\[[0-9;]*m//g')
else TRC=0; fi
cd /; git -C /repo worktree remove --force $WT
echo "demo clean rc=$CLEAN, with change rc=$MUT, tests rc=$TRC: $TP"
if [ $CLEAN -eq 0 ] && [ $MUT -ne 0 ] && [ $TRC -eq 0 ]; then
  mkdir -p /verif/seeded/$NAME; cp $SRC/patch.diff $SRC/demo.py /verif/seeded/$NAME/
  python3 - "$NAME" "$PROP" "$SRC" "$TESTS" "$TP" <<'PY'
import json,sys
name,prop,src,tests,tp=sys.argv[1:6]
notes=open(src+"/notes.txt").read()
json.dump({"property":prop,"what_it_needs_to_manifest":notes,"confirmed":{"demo_on_clean_tree":"exit 0","demo_with_change":"non-zero exit","tests_with_change":tests+" -> "+tp},"origin":"independent sub-agent given only the property text and a scratch worktree"}, open("/verif/seeded/%s/meta.json"%name,"w"), indent=1)
PY
  echo "KEPT seeded/$NAME"
else echo "REJECTED $NAME"; fi
