"""Differential conformance run of the pyvc interpreter against CPython on concrete inputs (dev/conformance/corpus.py).

usage: python3-vt dev/conformance/run.py [filter]
exit 0: every case the engine supports agrees with CPython; exit 1: at least one disagreement (an engine bug).
Unsupported constructs are reported separately: refusing is allowed, lying is not."""
import importlib.util
import json
import os
import shutil
import sys
import tempfile

HERE = os.path.dirname(os.path.abspath(__file__))
VERIF = os.path.dirname(os.path.dirname(HERE))
sys.path.insert(0, VERIF)


def load_corpus():
    spec = importlib.util.spec_from_file_location("corpus", os.path.join(HERE, "corpus.py"))
    m = importlib.util.module_from_spec(spec)
    spec.loader.exec_module(m)
    return m


def native(fn, args):
    import copy
    try:
        return ("return", fn(*copy.deepcopy(args)))
    except BaseException as e:  # noqa
        return ("raise", type(e).__name__)


def main():
    symbolic = "--symbolic" in sys.argv
    argv = [a for a in sys.argv[1:] if a != "--symbolic"]
    flt = argv[0] if argv else ""
    corpus = load_corpus()
    scratch = tempfile.mkdtemp(prefix="pyvc_conf_")
    os.makedirs(os.path.join(scratch, "conf"))
    shutil.copy(os.path.join(HERE, "corpus.py"), os.path.join(scratch, "conf", "corpus.py"))
    os.environ["PYVC_REPO"] = scratch
    from pyvc import contracts as C
    C.REPO = scratch
    from pyvc.contracts import Contract
    from pyvc.pack import Pack
    from pyvc.runner import FunctionRun
    from pyvc.values import Opaque, PyDict, PyList, Sym, SExc
    import pyvc.runner as R

    def to_v(x):
        if isinstance(x, list):
            return PyList([to_v(e) for e in x])
        if isinstance(x, dict):
            return PyDict({k: to_v(v) for k, v in x.items()})
        if isinstance(x, tuple):
            return tuple(to_v(e) for e in x)
        return x

    MODEL = [None]

    def from_v(v):
        if isinstance(v, PyList):
            return [from_v(e) for e in v.items]
        if isinstance(v, PyDict):
            return {k: from_v(e) for k, e in v.d.items()}
        if isinstance(v, tuple):
            return tuple(from_v(e) for e in v)
        if isinstance(v, (set, frozenset)):
            return type(v)(from_v(e) for e in v)
        if isinstance(v, Sym):
            import z3
            t = z3.simplify(v.term)
            if MODEL[0] is not None:
                t = z3.simplify(MODEL[0].eval(v.term, model_completion=True))
            if z3.is_seq(t) and not z3.is_string(t) and (z3.is_app(t)):
                # Seq(Int) -> bytes
                try:
                    parts = []
                    def walk(x):
                        if x.decl().kind() == z3.Z3_OP_SEQ_CONCAT:
                            for c in x.children():
                                walk(c)
                        elif x.decl().kind() == z3.Z3_OP_SEQ_UNIT:
                            parts.append(x.children()[0].as_long())
                        elif x.decl().kind() == z3.Z3_OP_SEQ_EMPTY:
                            pass
                        else:
                            raise ValueError
                    walk(t)
                    return bytes(parts)
                except Exception:
                    pass
            if z3.is_int_value(t):
                return t.as_long()
            if z3.is_true(t) or z3.is_false(t):
                return z3.is_true(t)
            if z3.is_string_value(t):
                return t.as_string()
            if z3.is_rational_value(t):
                return float(t.as_fraction())
            return ("<symbolic>", str(t))
        return v

    captured = {}
    orig_finish = FunctionRun.finish

    def finish(self, interp, env, outcome, val):
        MODEL[0] = None
        if symbolic:
            import z3
            sv = interp.ctx.solver
            if sv.check() == z3.sat:
                MODEL[0] = sv.model()
        captured["out"] = ("return", from_v(val)) if outcome == "return" else ("raise", val.cls.name if isinstance(val, SExc) else repr(val))
        if symbolic:
            import z3
            from pyvc import ops as _ops
            exp = captured.get("expected")
            possible = forced = False
            if outcome == "return" and exp[0] == "return":
                def eq(a, b):
                    if isinstance(a, PyList) and isinstance(b, list):
                        return len(a.items) == len(b) and all_(eq(x, y) for x, y in zip(a.items, b))
                    if isinstance(a, tuple) and isinstance(b, tuple):
                        return len(a) == len(b) and all_(eq(x, y) for x, y in zip(a, b))
                    if isinstance(a, PyDict) and isinstance(b, dict):
                        return set(a.d) == set(b) and all_(eq(a.d[k], b[k]) for k in b)
                    if isinstance(a, (PyList, PyDict, tuple)) or isinstance(b, (list, dict, tuple)):
                        return False
                    try:
                        return _ops.truth(_ops.equal(a, b)) if type(from_v(a)) is type(b) or isinstance(a, Sym) else False
                    except Exception:
                        return False

                def all_(it):
                    acc = True
                    for t in it:
                        if t is False:
                            return False
                        if t is True:
                            continue
                        acc = t if acc is True else z3.And(acc, t)
                    return acc
                e = eq(val, exp[1])
                if e is True:
                    possible = forced = True
                elif e is not False:
                    sv = interp.ctx.solver
                    sv.push(); sv.add(e); possible = sv.check() == z3.sat; sv.pop()
                    sv.push(); sv.add(z3.Not(e)); forced = sv.check() == z3.unsat; sv.pop()
            elif outcome != "return" and exp[0] == "raise":
                possible = forced = (captured["out"][1] == exp[1])
            captured.setdefault("paths", []).append((captured["out"], possible, forced))
        return orig_finish(self, interp, env, outcome, val)

    FunctionRun.finish = finish
    pack = Pack("CONF", files=["conf/corpus.py"])
    from contracts.common import install_common
    install_common(pack)
    ok = bad = unsupported = 0
    problems = []
    for name, cases in sorted(corpus.CASES.items()):
        if flt and flt not in name:
            continue
        fn = getattr(corpus, name)
        import inspect
        pnames = list(inspect.signature(fn).parameters)
        for args in cases:
            exp = native(fn, args)
            captured.clear()
            captured["expected"] = exp
            import ast as _ast
            allnames = {n.name for n in _ast.walk(_ast.parse(open(os.path.join(HERE, "corpus.py")).read())) if isinstance(n, _ast.FunctionDef)}
            if symbolic:
                # scalar arguments become SYMBOLIC values pinned by a precondition: the path conditions and the result then go through the
                # solver encodings (floor division, modulo, comparisons, sequences) instead of Python's own arithmetic
                from pyvc.values import INT, BOOL, STR, BYTES
                kinds, reqs = {}, []
                for pn, a in zip(pnames, args):
                    if isinstance(a, bool):
                        kinds[pn] = BOOL; reqs.append("%s == %r" % (pn, a))
                    elif isinstance(a, int):
                        kinds[pn] = INT; reqs.append("%s == %r" % (pn, a))
                    elif isinstance(a, str):
                        kinds[pn] = STR; reqs.append("%s == %r" % (pn, a))
                    elif isinstance(a, bytes):
                        kinds[pn] = BYTES; reqs.append("%s == %r" % (pn, a))
                    else:
                        kinds[pn] = (lambda v: (lambda interp: to_v(v)))(a)
                c = Contract("conf/corpus.py", name, inline=allnames, params=kinds, requires=reqs, exsures={"BaseException": {}})
                run = FunctionRun(pack, c)
                run.run()
                outs = getattr(run, "_outs", None)
            c = Contract("conf/corpus.py", name, inline=allnames, params={pn: (lambda v: (lambda interp: to_v(v)))(a) for pn, a in zip(pnames, args)},
                         exsures={k: {} for k in ("BaseException",)}) if not symbolic else c
            if not symbolic:
                run = FunctionRun(pack, c)
                run.run()
            if run.status == "unsupported":
                unsupported += 1
                problems.append(("unsupported", name, args, run.message.splitlines()[0][:160]))
                continue
            if run.status != "ok" or "out" not in captured:
                bad += 1
                problems.append(("engine-error", name, args, (run.message or "no outcome").splitlines()[-1][:200]))
                continue
            if symbolic:
                paths = captured.get("paths", [])
                if any(po for _o, po, _f in paths) and all(f for _o, _p, f in paths):
                    ok += 1
                elif any(po for _o, po, _f in paths):
                    unsupported += 1
                    problems.append(("abstracted", name, args, "CPython's outcome %r is among the engine's %d outcome(s), not the only one" % (exp if len(repr(exp)) < 80 else exp[0], len(paths))))
                else:
                    bad += 1
                    problems.append(("MISMATCH", name, args, "engine outcomes %r exclude CPython's %r" % ([o for o, _p, _f in paths][:3], exp)))
                continue
            got = captured["out"]
            same = got == exp
            if not same and got[0] == exp[0] == "return":
                try:
                    same = json.dumps(got[1], default=repr, sort_keys=True) == json.dumps(exp[1], default=repr, sort_keys=True)
                except Exception:
                    same = False
            if not same and "<symbolic>" in repr(got):
                unsupported += 1
                problems.append(("abstracted", name, args, "engine keeps %r symbolic (sound over-approximation)" % (got,)))
                continue
            if same:
                ok += 1
            else:
                bad += 1
                problems.append(("MISMATCH", name, args, "engine %r  vs CPython %r" % (got, exp)))
    shutil.rmtree(scratch, ignore_errors=True)
    for p in problems:
        print("%-12s %s%r: %s" % p)
    print(json.dumps(dict(agree=ok, disagree=bad, unsupported=unsupported)))
    return 1 if bad else 0


if __name__ == "__main__":
    sys.exit(main())
