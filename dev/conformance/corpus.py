"""Conformance corpus for the pyvc engine: small functions exercising the Python constructs that occur in the joblib code under
contract.  Each function is executed by CPython and, on the same concrete arguments, by the symbolic interpreter; outcomes (value or
exception class) must agree.  CASES maps a function name to argument tuples."""
import io

K = 1024
TABLE = {"K": K, "M": K ** 2}


class Base:
    kind = "base"

    def __init__(self, n):
        self.n = n

    def double(self):
        return self.n * 2

    @property
    def plus_one(self):
        return self.n + 1

    @staticmethod
    def stat(x):
        return x - 1

    def describe(self):
        return (self.kind, self.double())


class Child(Base):
    kind = "child"

    def double(self):
        return super().double() + 1


class Ctx:
    def __init__(self, log, swallow):
        self.log, self.swallow = log, swallow

    def __enter__(self):
        self.log.append("enter")
        return self

    def __exit__(self, et, ev, tb):
        self.log.append("exit:" + (et.__name__ if et else "none"))
        return self.swallow


def arith(a, b):
    return (a + b, a - b, a * b, a // b, a % b, -a, abs(a), a ** 2)


def divmod_fn(a, b):
    return divmod(a, b)


def truediv(a, b):
    return a / b


def cmp_chain(a, b, c):
    return (a < b < c, a <= b == c, a != b, not a, a is None, a is not None)


def short_circuit(a, b):
    return (a and b, a or b, not (a and b), (a or b) and 5)


def cond(a, b):
    return a if a > b else b


def loops(n):
    out = []
    i = 0
    while True:
        i += 1
        if i % 2:
            continue
        if i > n:
            break
        out.append(i)
    else:
        out.append(-1)
    for j in range(n):
        if j == 3:
            break
    else:
        out.append("no-break")
    return out, i


def for_else(xs, t):
    for x in xs:
        if x == t:
            r = "found"
            break
    else:
        r = "missing"
    return r


def try_flow(x):
    log = []
    try:
        try:
            if x == 0:
                raise ValueError("zero")
            if x == 1:
                raise KeyError("one")
            if x == 2:
                return ("early", log)
            log.append("body")
        except ValueError as e:
            log.append("ve:" + str(e))
        else:
            log.append("else")
        finally:
            log.append("fin")
    except KeyError as e:
        log.append("ke")
        return ("outer", log, e.args)
    return ("end", log)


def raise_from(x):
    try:
        try:
            {}[x]
        except KeyError as e:
            raise ValueError("bad %s" % x) from e
    except ValueError as v:
        return (isinstance(v.__cause__, KeyError), isinstance(v, ValueError))


def reraise(x):
    try:
        try:
            return 10 // x
        except ZeroDivisionError:
            raise
    except ArithmeticError as e:
        return isinstance(e, ZeroDivisionError)


def uncaught(x):
    if x < 0:
        raise IndexError("neg")
    return [1, 2, 3][x]


def closures(n):
    acc = []

    def add(k, *rest, scale=1, **kw):
        acc.append((k + n) * scale + len(rest) + len(kw))
        return len(acc)
    add(1)
    add(2, 3, 4, scale=2)
    add(k=5, z=1)
    f = lambda v, w=2: v * w + n
    return acc, f(3), f(3, w=1)


def defaults(a, b=2, *args, c=3, **kw):
    return (a, b, args, c, sorted(kw.items()))


def call_defaults(x):
    return (defaults(x), defaults(x, 9), defaults(x, 9, 8, 7), defaults(x, c=1, z=0), defaults(*[x, 1], **{"c": 5}))


def lists(xs):
    ys = list(xs)
    ys.append(99)
    ys.extend([1, 2])
    ys.insert(0, -1)
    p = ys.pop()
    q = ys.pop(0)
    return (ys, p, q, len(ys), ys[0], ys[-1], ys[1:3], 99 in ys, ys + [0], sorted(ys), min(ys), max(ys), sum(ys))


def lists2(xs):
    ys = list(xs)
    ys.reverse()
    return (ys, ys[::-1], ys[::2], ys.index(xs[0]), ys.count(1), ys * 2)


def slicing(s, a, b):
    return (s[a:b], s[:a], s[b:], s[-a:], s[a], len(s[a:b]))


def slicing_step(s, a, b):
    return (s[a:b:2], s[::-1], s[::3])


def tuples(t):
    a, b, *rest = t
    (x, y), z = (a, b), rest
    return (a, b, rest, x + y, z, t + (1,), t[1:], len(t), tuple(reversed(t)), t.index(b))


def dicts(pairs):
    d = dict(pairs)
    d["new"] = 1
    d.setdefault("new", 2)
    d.setdefault("other", 3)
    e = d.copy()
    e.update({"z": 26}, new=5)
    popped = e.pop("z")
    missing = e.pop("nope", "dflt")
    got = d.get("nope"), d.get("new", 0)
    return (d, sorted(e), popped, missing, got, "new" in d, len(d), sorted(d.keys()))


def dicts2(pairs):
    d = dict(pairs)
    return (sorted(d.items()), sorted(d.values(), key=str), {k: v for k, v in d.items() if k != "new"} == dict(pairs))


def dict_keyerror(d, k):
    return d[k]


def strings(s):
    return (s.startswith("a"), s.endswith("z"), s + "x", s[0:2], "a" in s, len(s), s == "abc,z", s != "", s < "b")


def strings2(s):
    return (s.upper(), s.strip(), s.split(","), ",".join(["a", "b"]), s.replace("a", "b"), "%s-%d" % (s, 3), "{}:{}".format(s, 1), f"{s!r}|{len(s):03d}", s * 2, s.find("c"),
            s.encode("ascii"), s.isdigit(), s.lower().count("a"), s.partition(","), s.rstrip("z"))


def bytes_ops(b):
    return (b[:2], b + b"!", len(b), b[0], b.startswith(b"\x80"), int.from_bytes(b[:1], "little"), (5).to_bytes(1, "little"), b == b"ab")


def bytes_ops2(b):
    return (b"ZF" in b, b.decode("latin1"), bytes(3), bytearray(b)[1:])


def type_tests(x):
    return (type(x) is int, type(x) is bool, type(x) in (bytes, bytearray), type(x) == str, type(x) in (int, float), type(x) is type(None), isinstance(x, (int, str)))


def range_step(n, step):
    try:
        return list(range(0, n, step))
    except ValueError:
        return "ValueError"


def conversions(x):
    return (int(x), str(x), bool(x), isinstance(x, int), isinstance(x, (str, bytes)))


def conversions2(x):
    return (float(x), repr(x), type(x).__name__)


def int_of(s):
    return int(s)


def classes(n):
    b, c = Base(n), Child(n)
    return (b.double(), c.double(), b.plus_one, Base.stat(n), c.stat(n), b.describe(), c.describe(), isinstance(c, Base), type(c).__name__, hasattr(c, "n"), hasattr(c, "zz"),
            getattr(c, "zz", "dflt"), c.kind, Child.kind)


def attr_error(n):
    return Base(n).nothing


def context_managers(mode):
    log = []
    try:
        with Ctx(log, mode == "swallow") as c:
            log.append("in")
            if mode != "ok":
                raise RuntimeError("boom")
            log.append("after")
        log.append("past")
    except RuntimeError:
        log.append("caught")
    return log


def gen_fn(n):
    for i in range(n):
        if i == 2:
            continue
        yield i * i
    return


def generators(n):
    return (sum(x for x in range(n) if x % 2), [x * 2 for x in range(n)], any(x > 3 for x in range(n)), all(x < 3 for x in range(n)), [x for x in range(n) if x != 1], next(iter(range(n)), "empty"))


def generators2(n):
    return (list(gen_fn(n)), {x % 3 for x in range(n)} == set(range(min(n, 3))), list(zip(range(n), "abc")), list(enumerate("ab", 1)), dict(zip("ab", range(n))), list(map(str, range(n))))


def aug(n):
    x = n
    x += 2
    x *= 3
    x -= 1
    x //= 2
    x %= 7
    lst = [1]
    lst += [2]
    d = {"a": 1}
    d["a"] += 5
    return x, lst, d


def globals_use(u, n):
    return TABLE[u] * n


def none_checks(x):
    if x is None:
        return "none"
    elif not x:
        return "falsy"
    return "truthy"


def nested_data(n):
    data = {"a": [1, 2, {"b": (n, n + 1)}], "c": {"d": [n, n, n]}}
    data["a"][2]["b"] = data["a"][2]["b"] + (0,)
    data["c"]["d"].append(len(data["a"]))
    return data, data["a"][2]["b"][-1], data["c"]["d"][1:]


def walrus(xs):
    out = []
    i = 0
    while (n := len(xs) - i) > 0:
        out.append(n)
        i += 2
    return out


def star_calls(xs, d):
    def f(a, b, c=0, **kw):
        return a - b + c + len(kw)
    return f(*xs), f(*xs, **d), f(1, *xs[:1], **d)


def bytesio_ops(data):
    f = io.BytesIO(data)
    a = f.read(2)
    p = f.tell()
    f.seek(0)
    b = f.read()
    f.seek(1)
    c = f.read(100)
    return a, p, b, c, f.tell()


def sorting(pairs):
    return (sorted(pairs), sorted(pairs, key=lambda p: p[1]), sorted(pairs, reverse=True), min(pairs), max(pairs, key=lambda p: p[1]))


def sort_unorderable(xs):
    return sorted(xs)


def unpack_errors(t):
    a, b = t
    return a + b


def global_counter(n):
    total = 0
    for i in range(n):
        for j in range(i):
            if (i + j) % 3 == 0:
                total += i * j
            elif j > 2:
                total -= 1
    return total


def set_ops(xs, ys):
    a, b = set(xs), set(ys)
    return (sorted(a | b), sorted(a & b), sorted(a - b), a <= b, len(a), 1 in a, sorted(a ^ b))


def str_int_mix(x):
    return "n" + x


def bytes_slices(b, i, j):
    return (b[i:j], b[:i] + b[i:] == b, len(b[i:]), len(b[:j]), b[i:j] + b[j:], b[-i:] if i else b"", len(b[i:j]) <= len(b))


def alignment(p, n):
    pad = n - ((p + 1) % n)
    return (pad, (p + 1 + pad) % n, 1 <= pad <= n, -(-p // n), (p + n - 1) // n, p - p % n)


def clamp(x, lo, hi):
    m = min(x, hi)
    r = max(lo, m)
    return (r, lo <= r <= hi or lo > hi, min(x, lo, hi), max(x, lo, hi), abs(x - lo), x if x < lo else lo, int(x > lo) + (x == hi) + True)


def nested_ifs(a, b, c):
    if a < b:
        if b < c:
            return "abc"
        elif a < c:
            return "acb"
        return "cab"
    if not (a < c):
        if b < c:
            return "bca"
        return "cba" if b >= c and a >= b else "?"
    return "bac"


def str_ops(s, t):
    return (s + t, len(s + t), s == t, s < t, (s + t).startswith(s), (s + t).endswith(t), s in s + t, (s + t)[:len(s)] == s, (s + t)[len(s):])


CASES = {
    "bytes_slices": [(b"abcdefgh", 2, 5), (b"abcdefgh", 0, 100), (b"abcdefgh", 5, 2), (b"", 0, 0), (b"abc", 3, 3), (b"abcdef", 7, 9)],
    "alignment": [(0, 16), (14, 16), (15, 16), (16, 16), (31, 16), (7, 8), (1000003, 16)],
    "clamp": [(5, 0, 10), (-5, 0, 10), (50, 0, 10), (3, 7, 2), (0, 0, 0)],
    "nested_ifs": [(1, 2, 3), (1, 3, 2), (2, 1, 3), (2, 3, 1), (3, 1, 2), (3, 2, 1), (1, 1, 1), (1, 2, 2), (2, 2, 1)],
    "str_ops": [("ab", "cd"), ("", "x"), ("abc", "abc"), ("b", "a")],
    "arith": [(7, 2), (-7, 2), (7, -2), (-7, -2), (0, 5), (5, 0), (2 ** 40, 3)],
    "truediv": [(7, 2), (1, 0), (-9, 3)],
    "cmp_chain": [(1, 2, 3), (2, 2, 2), (3, 2, 1), (None, 1, 2), (0, 0, 0)],
    "short_circuit": [(0, 5), (3, 0), ("", "x"), ([], [1]), (None, None), (2, 3)],
    "cond": [(1, 2), (5, 2), (2, 2)],
    "loops": [(0,), (1,), (5,), (9,)],
    "for_else": [([1, 2, 3], 2), ([1, 2, 3], 9), ([], 1)],
    "try_flow": [(0,), (1,), (2,), (3,)],
    "raise_from": [("k",), (3,)],
    "reraise": [(0,), (5,)],
    "uncaught": [(-1,), (0,), (2,), (3,)],
    "closures": [(0,), (10,)],
    "call_defaults": [(1,), ("s",)],
    "lists": [([3, 1, 2],), ([],), ([5, 5],)],
    "lists2": [([3, 1, 2],), ([5, 5],)],
    "divmod_fn": [(7, 2), (-7, 2), (7, -2)],
    "slicing_step": [("abcdefgh", 2, 5), ([1, 2, 3, 4, 5, 6], 1, 4)],
    "dicts2": [([("a", 1), ("b", 2)],), ([],)],
    "strings2": [("abc,z",), ("  A,b ",)],
    "bytes_ops2": [(b"\x80\x04ZFxx",), (b"ab",)],
    "conversions2": [(5,), (True,)],
    "generators2": [(0,), (3,), (6,)],
    "slicing": [("abcdefgh", 2, 5), ("abcdefgh", 0, 100), ("abcdefgh", 5, 2), ([1, 2, 3, 4, 5, 6], 1, 4), (b"abcdefgh", 3, 7), ("ab", 5, 7)],
    "tuples": [((1, 2, 3, 4),), ((5, 6),), ((1,),)],
    "dicts": [([("a", 1), ("b", 2)],), ([],)],
    "dict_keyerror": [({"a": 1}, "a"), ({"a": 1}, "b")],
    "strings": [("abc,z",), ("  A,b ",), ("123",), ("",)],
    "bytes_ops": [(b"\x80\x04ZFxx",), (b"ab",)],
    "conversions": [(5,), (0,), (True,), (-3,)],
    "int_of": [("12",), ("-7",), ("x",), ("",), (" 8 ",)],
    "classes": [(3,), (0,)],
    "attr_error": [(1,)],
    "context_managers": [("ok",), ("swallow",), ("raise",)],
    "generators": [(0,), (1,), (3,), (6,)],
    "aug": [(1,), (10,)],
    "globals_use": [("K", 3), ("M", 1), ("G", 1)],
    "none_checks": [(None,), (0,), ("",), ([],), ("x",), (7,)],
    "nested_data": [(1,), (5,)],
    "walrus": [([1, 2, 3, 4, 5],), ([],)],
    "star_calls": [([5, 2], {"c": 1}), ([5, 2], {"c": 1, "z": 10})],
    "bytesio_ops": [(b"hello",), (b"",)],
    "sorting": [([(2, "b"), (1, "c"), (3, "a")],), ([],)],
    "sort_unorderable": [([1, "a"],), ([3, 1, 2],)],
    "unpack_errors": [((1, 2),), ((1, 2, 3),), ((1,),)],
    "global_counter": [(0,), (4,), (7,)],
    "set_ops": [([1, 2, 3], [2, 3, 4]), ([], [1])],
    "str_int_mix": [("a",), (1,)],
    "range_step": [(5, 1), (5, 2), (5, 0), (0, 0), (5, -1)],
    "type_tests": [(1,), (True,), (1.5,), ("s",), (b"b",), (None,)],
}
